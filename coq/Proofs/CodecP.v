(* Proofs/CodecP.v — theorems about the VTK XML byte-level container (C05, C13, codec layer of C18).
   All statements are for unbounded lengths / block sizes / numbers of blocks. *)
From Coq Require Import NArith ZArith List Bool Lia.
From FC Require Import Model.Codec.
Import ListNotations.
Local Open Scope N_scope.

Ltac Zify.zify_post_hook ::= Z.to_euclidean_division_equations.

Definition wf (l : bytes) : Prop := Forall (fun b => b < 256) l.

Lemma wfb_wf l : wfb l = true <-> wf l.
Proof.
  unfold wfb, wf. rewrite forallb_forall, Forall_forall. unfold is_byte.
  split; intros H x Hx; specialize (H x Hx); [apply N.ltb_lt in H|apply N.ltb_lt]; exact H.
Qed.

Lemma wf_app a b : wf (a ++ b) <-> wf a /\ wf b.
Proof. unfold wf. apply Forall_app. Qed.

Lemma wf_nil : wf []. Proof. constructor. Qed.

(* ------------------------------------------------------------------------------------------------ *)
(* slices                                                                                             *)
(* ------------------------------------------------------------------------------------------------ *)
Lemma takeN_firstn {A} (l : list A) : forall n, takeN n l = firstn (N.to_nat n) l.
Proof.
  induction l as [|x l IH]; intros n; simpl.
  - destruct (N.to_nat n); reflexivity.
  - destruct (N.eqb_spec n 0) as [->|Hn]; [reflexivity|].
    replace (N.to_nat n) with (S (N.to_nat (N.pred n))) by lia. simpl. rewrite IH. reflexivity.
Qed.

Lemma dropN_skipn {A} (l : list A) : forall n, dropN n l = skipn (N.to_nat n) l.
Proof.
  induction l as [|x l IH]; intros n; simpl.
  - destruct (N.to_nat n); reflexivity.
  - destruct (N.eqb_spec n 0) as [->|Hn]; [reflexivity|].
    replace (N.to_nat n) with (S (N.to_nat (N.pred n))) by lia. simpl. rewrite IH. reflexivity.
Qed.

Lemma lenN_app {A} (a b : list A) : lenN (a ++ b) = lenN a + lenN b.
Proof. unfold lenN. rewrite app_length. lia. Qed.

Lemma lenN_nil {A} : lenN (@nil A) = 0. Proof. reflexivity. Qed.

Lemma lenN_cons {A} (x : A) l : lenN (x :: l) = 1 + lenN l.
Proof. unfold lenN. cbn [length]. lia. Qed.

Lemma lenN_zero {A} (l : list A) : lenN l = 0 -> l = [].
Proof. destruct l; [reflexivity|]. rewrite lenN_cons. lia. Qed.

Lemma takeN_app_len {A} (a b : list A) : takeN (lenN a) (a ++ b) = a.
Proof.
  rewrite takeN_firstn. unfold lenN. rewrite Nat2N.id.
  rewrite firstn_app, Nat.sub_diag, firstn_all. simpl. apply app_nil_r.
Qed.

Lemma dropN_app_len {A} (a b : list A) : dropN (lenN a) (a ++ b) = b.
Proof.
  rewrite dropN_skipn. unfold lenN. rewrite Nat2N.id.
  rewrite skipn_app, Nat.sub_diag, skipn_all. reflexivity.
Qed.

Lemma takeN_app_len' {A} (a b : list A) n : n = lenN a -> takeN n (a ++ b) = a.
Proof. intros ->. apply takeN_app_len. Qed.

Lemma dropN_app_len' {A} (a b : list A) n : n = lenN a -> dropN n (a ++ b) = b.
Proof. intros ->. apply dropN_app_len. Qed.

Lemma takeN_all {A} (l : list A) n : lenN l <= n -> takeN n l = l.
Proof. intros H. rewrite takeN_firstn. apply firstn_all2. unfold lenN in H. lia. Qed.

Lemma takeN_len_self {A} (l : list A) : takeN (lenN l) l = l.
Proof. apply takeN_all. lia. Qed.

Lemma dropN_all {A} (l : list A) n : lenN l <= n -> dropN n l = [].
Proof. intros H. rewrite dropN_skipn. apply skipn_all2. unfold lenN in H. lia. Qed.

Lemma takeN_0 {A} (l : list A) : takeN 0 l = [].
Proof. destruct l; reflexivity. Qed.

Lemma dropN_0 {A} (l : list A) : dropN 0 l = l.
Proof. destruct l; reflexivity. Qed.

Lemma takeN_length {A} (l : list A) n : lenN (takeN n l) = N.min n (lenN l).
Proof. rewrite takeN_firstn. unfold lenN. rewrite firstn_length. lia. Qed.

Lemma dropN_length {A} (l : list A) n : lenN (dropN n l) = lenN l - n.
Proof. rewrite dropN_skipn. unfold lenN. rewrite skipn_length. lia. Qed.

Lemma takeN_dropN {A} (l : list A) n : takeN n l ++ dropN n l = l.
Proof. rewrite takeN_firstn, dropN_skipn. apply firstn_skipn. Qed.

Lemma takeN_app_le {A} (a b : list A) n : n <= lenN a -> takeN n (a ++ b) = takeN n a.
Proof.
  intros H. rewrite !takeN_firstn, firstn_app. unfold lenN in H.
  replace (N.to_nat n - length a)%nat with 0%nat by lia. simpl. apply app_nil_r.
Qed.

Lemma wf_takeN l n : wf l -> wf (takeN n l).
Proof.
  intros H. rewrite <- (takeN_dropN l n) in H. apply wf_app in H. tauto.
Qed.

Lemma wf_dropN l n : wf l -> wf (dropN n l).
Proof.
  intros H. rewrite <- (takeN_dropN l n) in H. apply wf_app in H. tauto.
Qed.

Lemma skipn_map' {A B} (f : A -> B) : forall n l, skipn n (map f l) = map f (skipn n l).
Proof. induction n as [|n IH]; intros [|x l]; simpl; auto. Qed.

Lemma list_eqb_eq a : forall b, list_eqb a b = true <-> a = b.
Proof.
  induction a as [|x a IH]; intros [|y b]; simpl; split; intro H; try reflexivity; try discriminate.
  - apply andb_true_iff in H. destruct H as [H1 H2]. apply N.eqb_eq in H1. apply IH in H2. congruence.
  - inversion H; subst. rewrite N.eqb_refl. simpl. apply IH. reflexivity.
Qed.

(* ------------------------------------------------------------------------------------------------ *)
(* base64                                                                                             *)
(* ------------------------------------------------------------------------------------------------ *)
Lemma lt64_in v : v < 64 -> In v (map N.of_nat (seq 0 64)).
Proof.
  intros H. apply in_map_iff. exists (N.to_nat v). split; [lia|]. apply in_seq. lia.
Qed.

Lemma sextet_alpha v : v < 64 -> sextet (alpha v) = Some v.
Proof.
  intros H.
  assert (T : forallb (fun v => match sextet (alpha v) with Some u => u =? v | None => false end)
                      (map N.of_nat (seq 0 64)) = true) by (vm_compute; reflexivity).
  rewrite forallb_forall in T. specialize (T v (lt64_in v H)).
  destruct (sextet (alpha v)); [|discriminate]. apply N.eqb_eq in T. congruence.
Qed.

Lemma alpha_not_pad v : v < 64 -> (alpha v =? pad) = false.
Proof.
  intros H.
  assert (T : forallb (fun v => negb (alpha v =? pad)) (map N.of_nat (seq 0 64)) = true) by (vm_compute; reflexivity).
  rewrite forallb_forall in T. specialize (T v (lt64_in v H)). apply negb_true_iff in T. exact T.
Qed.

Lemma alpha_byte v : v < 64 -> alpha v < 256.
Proof.
  intros H.
  assert (T : forallb (fun v => alpha v <? 256) (map N.of_nat (seq 0 64)) = true) by (vm_compute; reflexivity).
  rewrite forallb_forall in T. specialize (T v (lt64_in v H)). apply N.ltb_lt in T. exact T.
Qed.

(* one decoding step on an alphabet character *)
Lemma dec_step_0 v p s : v < 64 -> b64dec_go [] p (alpha v :: s) = b64dec_go [v] 0 s.
Proof. intros H. cbn [b64dec_go]. rewrite (alpha_not_pad v H), (sextet_alpha v H). reflexivity. Qed.

Lemma dec_step_1 a v p s : v < 64 -> b64dec_go [a] p (alpha v :: s) = b64dec_go [a; v] 0 s.
Proof. intros H. cbn [b64dec_go]. rewrite (alpha_not_pad v H), (sextet_alpha v H). reflexivity. Qed.

Lemma dec_step_2 a b v p s : v < 64 -> b64dec_go [a; b] p (alpha v :: s) = b64dec_go [a; b; v] 0 s.
Proof. intros H. cbn [b64dec_go]. rewrite (alpha_not_pad v H), (sextet_alpha v H). reflexivity. Qed.

Lemma dec_step_3 a b c v p s : v < 64 ->
  b64dec_go [a; b; c] p (alpha v :: s) =
  option_map (app [a * 4 + b / 16; (b mod 16) * 16 + c / 4; (c mod 4) * 64 + v]) (b64dec_go [] 0 s).
Proof. intros H. cbn [b64dec_go]. rewrite (alpha_not_pad v H), (sextet_alpha v H). reflexivity. Qed.

(* a full group: three bytes <-> four sextets *)
Lemma dec_quad x y z s : x < 256 -> y < 256 -> z < 256 ->
  b64dec_go [] 0 (alpha (x / 4) :: alpha ((x mod 4) * 16 + y / 16) :: alpha ((y mod 16) * 4 + z / 64)
                  :: alpha (z mod 64) :: s)
  = option_map (app [x; y; z]) (b64dec_go [] 0 s).
Proof.
  intros Hx Hy Hz.
  rewrite dec_step_0 by lia. rewrite dec_step_1 by lia. rewrite dec_step_2 by lia. rewrite dec_step_3 by lia.
  f_equal. f_equal. f_equal; [lia|]. f_equal; [lia|]. f_equal. lia.
Qed.

Lemma dec_tail1 x s : x < 256 ->
  b64dec_go [] 0 (alpha (x / 4) :: alpha ((x mod 4) * 16) :: pad :: pad :: s) = Some [x].
Proof.
  intros Hx. rewrite dec_step_0 by lia. rewrite dec_step_1 by lia.
  cbn. f_equal. f_equal. lia.
Qed.

Lemma dec_tail2 x y s : x < 256 -> y < 256 ->
  b64dec_go [] 0 (alpha (x / 4) :: alpha ((x mod 4) * 16 + y / 16) :: alpha ((y mod 16) * 4) :: pad :: s)
  = Some [x; y].
Proof.
  intros Hx Hy. rewrite dec_step_0 by lia. rewrite dec_step_1 by lia. rewrite dec_step_2 by lia.
  cbn. f_equal. f_equal; [lia|]. f_equal. lia.
Qed.

(* induction in steps of three *)
Lemma list_ind3 {A} (P : list A -> Prop) :
  P [] -> (forall x, P [x]) -> (forall x y, P [x; y]) -> (forall x y z r, P r -> P (x :: y :: z :: r)) ->
  forall l, P l.
Proof.
  intros H0 H1 H2 H3.
  assert (G : forall l, P l /\ (forall x, P (x :: l)) /\ (forall x y, P (x :: y :: l))).
  { induction l as [|a l [IH0 [IH1 IH2]]]; [auto|]. repeat split; auto. }
  intro l. apply G.
Qed.

(* decoding an encoded string followed by further data *)
Theorem b64dec_enc_app : forall x, wf x -> forall rest,
  b64dec (b64enc x ++ rest) =
  if (lenN x mod 3 =? 0) then option_map (app x) (b64dec rest) else Some x.
Proof.
  unfold b64dec. intros x. induction x as [|x|x y|x y z r IH] using list_ind3; intros Hwf rest.
  - simpl. destruct (b64dec_go [] 0 rest); reflexivity.
  - inversion Hwf; subst. cbn [b64enc app]. rewrite dec_tail1 by assumption. reflexivity.
  - inversion Hwf as [|? ? Hx Hr]; subst. inversion Hr; subst.
    cbn [b64enc app]. rewrite dec_tail2 by assumption. reflexivity.
  - inversion Hwf as [|? ? Hx Hr]; subst. inversion Hr as [|? ? Hy Hr2]; subst. inversion Hr2 as [|? ? Hz Hr3]; subst.
    cbn [b64enc app]. rewrite dec_quad by assumption. rewrite (IH Hr3 rest).
    replace (lenN (x :: y :: z :: r) mod 3) with (lenN r mod 3) by (rewrite !lenN_cons; lia).
    destruct (lenN r mod 3 =? 0); [|reflexivity].
    destruct (b64dec_go [] 0 rest); reflexivity.
Qed.

Theorem b64_roundtrip x : wf x -> b64dec (b64enc x) = Some x.
Proof.
  intros H. rewrite <- (app_nil_r (b64enc x)). rewrite (b64dec_enc_app x H []).
  unfold b64dec at 1. simpl. rewrite app_nil_r. destruct (lenN x mod 3 =? 0); reflexivity.
Qed.

(* DESIGN 7/C05: b64_concat_prefix, the two cases spelled out *)
Theorem b64_concat_prefix_padded x rest : wf x -> lenN x mod 3 <> 0 -> b64dec (b64enc x ++ rest) = Some x.
Proof.
  intros H Hm. rewrite (b64dec_enc_app x H rest). destruct (N.eqb_spec (lenN x mod 3) 0); [contradiction|reflexivity].
Qed.

Theorem b64_concat_prefix_unpadded x rest y : wf x -> lenN x mod 3 = 0 -> b64dec rest = Some y ->
  b64dec (b64enc x ++ rest) = Some (x ++ y).
Proof.
  intros H Hm Hr. rewrite (b64dec_enc_app x H rest), Hm, Hr. reflexivity.
Qed.

Definition b64_ok (s : bytes) : Prop := exists y, b64dec s = Some y.

Lemma b64_ok_nil : b64_ok [].
Proof. exists []. reflexivity. Qed.

Lemma b64_ok_enc_app x rest : wf x -> b64_ok rest -> b64_ok (b64enc x ++ rest).
Proof.
  intros H [y Hy]. unfold b64_ok. rewrite (b64dec_enc_app x H rest), Hy.
  destruct (lenN x mod 3 =? 0); simpl; eauto.
Qed.

(* what the reader needs: the decoded string starts with x; nothing follows when x's encoding is padded *)
Lemma b64dec_enc_app_ex x rest : wf x -> b64_ok rest ->
  exists t, b64dec (b64enc x ++ rest) = Some (x ++ t) /\ (lenN x mod 3 <> 0 -> t = []).
Proof.
  intros H [y Hy]. rewrite (b64dec_enc_app x H rest), Hy.
  destruct (N.eqb_spec (lenN x mod 3) 0) as [E|E].
  - exists y. split; [reflexivity|]. intros C. contradiction.
  - exists []. rewrite app_nil_r. split; [reflexivity|reflexivity].
Qed.

(* length of the encoding and Base64Encoder.encoded_bytes *)
Theorem b64enc_length x : lenN (b64enc x) = 4 * ((lenN x + 2) / 3).
Proof.
  induction x as [|x|x y|x y z r IH] using list_ind3; try reflexivity.
  cbn [b64enc]. rewrite !lenN_cons in *. rewrite IH. lia.
Qed.

Theorem encoded_bytes_spec n : (0 <= n)%Z -> b64_encoded_bytes n = (4 * ((n + 2) / 3))%Z.
Proof. intros H. unfold b64_encoded_bytes. lia. Qed.

Lemma encoded_bytes_b64 n : encoded_bytes B64 n = 4 * ((n + 2) / 3).
Proof. unfold encoded_bytes. rewrite encoded_bytes_spec by lia. lia. Qed.

Theorem encoded_bytes_is_length e x : lenN (encode e x) = encoded_bytes e (lenN x).
Proof. destruct e; [reflexivity|]. cbn [encode]. rewrite b64enc_length, encoded_bytes_b64. reflexivity. Qed.

Lemma b64enc_app_mult3 a : lenN a mod 3 = 0 -> forall b, b64enc (a ++ b) = b64enc a ++ b64enc b.
Proof.
  induction a as [|x|x y|x y z r IH] using list_ind3; intros H b.
  - reflexivity.
  - rewrite lenN_cons, lenN_nil in H. cbv in H. discriminate.
  - rewrite !lenN_cons, lenN_nil in H. cbv in H. discriminate.
  - cbn [app b64enc]. rewrite IH; [reflexivity|]. rewrite !lenN_cons in H. lia.
Qed.

Lemma wf_b64enc x : wf x -> wf (b64enc x).
Proof.
  induction x as [|x|x y|x y z r IH] using list_ind3; intros H.
  - constructor.
  - inversion H; subst. cbn [b64enc]. repeat constructor; try (apply alpha_byte; lia); reflexivity.
  - inversion H as [|? ? Hx Hr]; subst. inversion Hr; subst.
    cbn [b64enc]. repeat constructor; try (apply alpha_byte; lia); reflexivity.
  - inversion H as [|? ? Hx Hr]; subst. inversion Hr as [|? ? Hy Hr2]; subst. inversion Hr2 as [|? ? Hz Hr3]; subst.
    cbn [b64enc]. repeat (constructor; [apply alpha_byte; lia|]). apply IH. assumption.
Qed.

(* ------------------------------------------------------------------------------------------------ *)
(* integers <-> bytes                                                                                 *)
(* ------------------------------------------------------------------------------------------------ *)
Lemma le_bytes_length w : forall n, length (le_bytes w n) = w.
Proof. induction w as [|w IH]; intros n; simpl; [reflexivity|]. rewrite IH. reflexivity. Qed.

Lemma wf_le_bytes w : forall n, wf (le_bytes w n).
Proof.
  induction w as [|w IH]; intros n; simpl; [constructor|]. constructor; [|apply IH].
  apply N.mod_lt. discriminate.
Qed.

Lemma pow256_succ w : 256 ^ N.of_nat (S w) = 256 * 256 ^ N.of_nat w.
Proof. rewrite Nat2N.inj_succ, N.pow_succ_r'. reflexivity. Qed.

Lemma le_int_le_bytes w : forall n, n < 256 ^ N.of_nat w -> le_int (le_bytes w n) = n.
Proof.
  induction w as [|w IH]; intros n H.
  - simpl in *. lia.
  - cbn [le_bytes le_int]. rewrite pow256_succ in H. rewrite IH.
    + pose proof (N.div_mod n 256). lia.
    + apply N.div_lt_upper_bound; [discriminate|exact H].
Qed.

Lemma le_bytes_le_int l : wf l -> le_bytes (length l) (le_int l) = l.
Proof.
  induction l as [|b l IH]; intros H; [reflexivity|]. inversion H as [|? ? Hb Hl]; subst.
  cbn [length le_bytes le_int].
  replace ((b + 256 * le_int l) mod 256) with b by lia.
  replace ((b + 256 * le_int l) / 256) with (le_int l) by lia.
  rewrite IH by assumption. reflexivity.
Qed.

Lemma le_int_bound l : wf l -> le_int l < 256 ^ lenN l.
Proof.
  induction l as [|b l IH]; intros H.
  - simpl. lia.
  - inversion H as [|? ? Hb Hl]; subst. unfold lenN. cbn [length le_int]. rewrite pow256_succ.
    specialize (IH Hl). unfold lenN in IH. lia.
Qed.

Lemma int_to_bytes_length bo w n : length (int_to_bytes bo w n) = w.
Proof. destruct bo; simpl; [|rewrite rev_length]; apply le_bytes_length. Qed.

Lemma lenN_int_to_bytes bo w n : lenN (int_to_bytes bo w n) = N.of_nat w.
Proof. unfold lenN. rewrite int_to_bytes_length. reflexivity. Qed.

Lemma wf_rev l : wf l -> wf (rev l).
Proof. unfold wf. intros H. apply Forall_rev. exact H. Qed.

Lemma wf_int_to_bytes bo w n : wf (int_to_bytes bo w n).
Proof. destruct bo; simpl; [|apply wf_rev]; apply wf_le_bytes. Qed.

(* value -> bytes -> value, any width, both byte orders *)
Theorem int_bytes_roundtrip bo w n : n < 256 ^ N.of_nat w -> bytes_to_int bo (int_to_bytes bo w n) = n.
Proof.
  intros H. destruct bo; simpl; [|rewrite rev_involutive]; apply le_int_le_bytes; exact H.
Qed.

(* bytes -> value -> bytes: every byte string of width w is the encoding of the value read from it *)
Theorem bytes_int_roundtrip bo l : wf l -> int_to_bytes bo (length l) (bytes_to_int bo l) = l.
Proof.
  intros H. destruct bo; simpl.
  - apply le_bytes_le_int. exact H.
  - rewrite <- (rev_length l). rewrite le_bytes_le_int by (apply wf_rev; exact H). apply rev_involutive.
Qed.

(* two's complement *)
Lemma pow256_Z w : Z.of_N (256 ^ N.of_nat w) = (256 ^ Z.of_nat w)%Z.
Proof. rewrite N2Z.inj_pow. rewrite nat_N_Z. reflexivity. Qed.

Theorem signed_roundtrip w z : (0 < w)%nat ->
  (- (256 ^ Z.of_nat w / 2) <= z < 256 ^ Z.of_nat w / 2)%Z -> to_signed w (to_unsigned w z) = z.
Proof.
  intros Hw Hz. unfold to_signed, to_unsigned.
  assert (P : (0 < 256 ^ Z.of_nat w)%Z) by (apply Z.pow_pos_nonneg; lia).
  assert (E : (256 ^ Z.of_nat w = 2 * (256 ^ Z.of_nat w / 2))%Z).
  { destruct w as [|w]; [lia|]. rewrite Nat2Z.inj_succ, Z.pow_succ_r by lia.
    replace (256 * 256 ^ Z.of_nat w)%Z with (2 * (128 * 256 ^ Z.of_nat w))%Z by lia.
    rewrite (Z.mul_comm 2), Z.div_mul by lia. lia. }
  set (M := (256 ^ Z.of_nat w)%Z) in *.
  assert (EN : Z.of_N (256 ^ N.of_nat w / 2) = (M / 2)%Z).
  { rewrite N2Z.inj_div, pow256_Z. reflexivity. }
  destruct (Z_lt_le_dec z 0) as [Hneg|Hpos].
  - assert (Em : (z mod M = z + M)%Z).
    { symmetry. apply Z.mod_unique with (q := (-1)%Z); lia. }
    rewrite Em. destruct (N.ltb_spec (Z.to_N (z + M)) (256 ^ N.of_nat w / 2)) as [C|C].
    + exfalso. apply N2Z.inj_lt in C. rewrite EN, Z2N.id in C by lia. lia.
    + rewrite Z2N.id by lia. fold M. lia.
  - assert (Em : (z mod M = z)%Z) by (apply Z.mod_small; lia).
    rewrite Em. destruct (N.ltb_spec (Z.to_N z) (256 ^ N.of_nat w / 2)) as [C|C].
    + rewrite Z2N.id by lia. reflexivity.
    + exfalso. apply N2Z.inj_le in C. rewrite EN, Z2N.id in C by lia. lia.
Qed.

Lemma to_unsigned_bound w z : to_unsigned w z < 256 ^ N.of_nat w.
Proof.
  unfold to_unsigned.
  assert (P : (0 < 256 ^ Z.of_nat w)%Z) by (apply Z.pow_pos_nonneg; lia).
  pose proof (Z.mod_pos_bound z _ P) as B.
  apply N2Z.inj_lt. rewrite Z2N.id by lia. rewrite pow256_Z. lia.
Qed.

(* ------------------------------------------------------------------------------------------------ *)
(* splitting into words / rows                                                                        *)
(* ------------------------------------------------------------------------------------------------ *)
Lemma concat_length_ge {A} (ws : list (list A)) w : 0 < w -> Forall (fun r => lenN r = w) ws ->
  lenN (concat ws) = w * lenN ws.
Proof.
  intros Hw H. induction H as [|r ws Hr Hws IH]; [cbn [concat]; rewrite !lenN_nil, N.mul_0_r; reflexivity|].
  simpl. rewrite lenN_app, lenN_cons, IH, Hr. lia.
Qed.

Lemma split_fuel_concat {A} (w : N) : 0 < w -> forall (ws : list (list A)) fuel,
  Forall (fun r => lenN r = w) ws -> (length (concat ws) <= fuel)%nat ->
  split_fuel fuel w (concat ws) = Some ws.
Proof.
  intros Hw ws. induction ws as [|r ws IH]; intros fuel Hall Hf.
  - destruct fuel; reflexivity.
  - apply Forall_cons_iff in Hall. destruct Hall as [Hr Hws].
    destruct r as [|a r]; [rewrite lenN_nil in Hr; lia|].
    cbn [concat]. cbn [app]. destruct fuel as [|f]; [simpl in Hf; lia|].
    cbn [split_fuel].
    change (a :: r ++ concat ws) with ((a :: r) ++ concat ws). rewrite <- Hr.
    destruct (N.ltb_spec (lenN ((a :: r) ++ concat ws)) (lenN (a :: r))) as [C|C].
    { rewrite lenN_app in C. lia. }
    rewrite takeN_app_len, dropN_app_len. rewrite Hr. rewrite IH; [reflexivity|assumption|].
    cbn [concat] in Hf. rewrite app_length in Hf. simpl in Hf. lia.
Qed.

Lemma splitN_concat {A} (w : N) (ws : list (list A)) : 0 < w -> Forall (fun r => lenN r = w) ws ->
  splitN w (concat ws) = Some ws.
Proof. intros Hw H. unfold splitN. apply split_fuel_concat; auto. Qed.

(* header words: ints -> bytes -> ints *)
Lemma ints_of_header bo h ints : Forall (fun n => n < hbound h) ints ->
  ints_of bo (hsize h) (header_bytes bo h ints) = Some ints.
Proof.
  intros H. unfold ints_of, header_bytes, words.
  rewrite splitN_concat.
  - simpl. f_equal. rewrite map_map. rewrite <- (map_id ints) at 2. apply map_ext_in.
    intros n Hn. apply int_bytes_roundtrip. rewrite Forall_forall in H. apply (H n Hn).
  - destruct h; reflexivity.
  - apply Forall_forall. intros r Hr. apply in_map_iff in Hr. destruct Hr as [n [<- _]].
    apply lenN_int_to_bytes.
Qed.

Lemma lenN_header_bytes bo h ints : lenN (header_bytes bo h ints) = hsize h * lenN ints.
Proof.
  unfold header_bytes. rewrite (concat_length_ge _ (hsize h)).
  - unfold lenN. rewrite map_length. reflexivity.
  - destruct h; reflexivity.
  - apply Forall_forall. intros r Hr. apply in_map_iff in Hr. destruct Hr as [n [<- _]].
    apply lenN_int_to_bytes.
Qed.

Lemma wf_concat ls : Forall wf ls -> wf (concat ls).
Proof.
  intros H. induction H as [|l ls Hl Hls IH]; [constructor|]. simpl. apply wf_app. split; assumption.
Qed.

Lemma wf_header_bytes bo h ints : wf (header_bytes bo h ints).
Proof.
  unfold header_bytes. apply wf_concat. apply Forall_forall. intros r Hr.
  apply in_map_iff in Hr. destruct Hr as [n [<- _]]. apply wf_int_to_bytes.
Qed.

Lemma header_bytes_app bo h a b : header_bytes bo h (a ++ b) = header_bytes bo h a ++ header_bytes bo h b.
Proof. unfold header_bytes. rewrite map_app, concat_app. reflexivity. Qed.

(* ------------------------------------------------------------------------------------------------ *)
(* NoCompressor: uncompressed arrays, both header placements, any payload length                      *)
(* ------------------------------------------------------------------------------------------------ *)
Lemma hsize_pos h : 0 < hsize h.
Proof. destruct h; reflexivity. Qed.

Lemma hsize_mod3 h : hsize h mod 3 <> 0.
Proof. destruct h; discriminate. Qed.

Lemma hbound_eq h : hbound h = 256 ^ N.of_nat (hsz h).
Proof. reflexivity. Qed.

Lemma header1_len bo h n : lenN (header_bytes bo h [n]) = hsize h.
Proof. rewrite lenN_header_bytes. rewrite lenN_cons, lenN_nil. lia. Qed.

Lemma header1_int bo h n : n < hbound h -> bytes_to_int bo (header_bytes bo h [n]) = n.
Proof.
  intros H. unfold header_bytes. simpl. rewrite app_nil_r. apply int_bytes_roundtrip. exact H.
Qed.

(* the branch taken when more than the header was decoded *)
Lemma read_unc_together bo h e data x t :
  lenN x < hbound h ->
  decode e data = Some (header_bytes bo h [lenN x] ++ x ++ t) -> x ++ t <> [] ->
  read_uncompressed bo h e data = Some x.
Proof.
  intros Hx Hd Hne. unfold read_uncompressed. rewrite Hd. cbv zeta.
  set (hd := header_bytes bo h [lenN x]).
  assert (Lh : lenN hd = hsize h) by apply header1_len.
  assert (Lp : 0 < lenN (x ++ t)).
  { destruct (x ++ t); [congruence|]. rewrite lenN_cons. lia. }
  destruct (N.ltb_spec (lenN (hd ++ x ++ t)) (hsize h)) as [C|C]; [rewrite lenN_app in C; lia|].
  rewrite (takeN_app_len' hd (x ++ t) (hsize h)) by (symmetry; exact Lh).
  assert (Hi : bytes_to_int bo hd = lenN x) by (apply header1_int; exact Hx). rewrite Hi.
  destruct (N.eqb_spec (lenN (hd ++ x ++ t)) (hsize h)) as [C2|C2]; [rewrite lenN_app in C2; lia|].
  rewrite (dropN_app_len' hd (x ++ t) (hsize h)) by (symmetry; exact Lh).
  rewrite takeN_app_len. reflexivity.
Qed.

(* the branch taken when exactly the header was decoded ("header was encoded separately") *)
Lemma read_unc_separate bo h e data x t :
  lenN x < hbound h ->
  decode e data = Some (header_bytes bo h [lenN x]) ->
  decode e (dropN (lenN (encode e (header_bytes bo h [lenN x]))) data) = Some (x ++ t) ->
  read_uncompressed bo h e data = Some x.
Proof.
  intros Hx Hd Hd2. unfold read_uncompressed. rewrite Hd. cbv zeta.
  set (hd := header_bytes bo h [lenN x]) in *.
  assert (Lh : lenN hd = hsize h) by apply header1_len.
  rewrite Lh, N.ltb_irrefl, N.eqb_refl.
  rewrite (takeN_all hd (hsize h)) by lia.
  assert (Hi : bytes_to_int bo hd = lenN x) by (apply header1_int; exact Hx). rewrite Hi.
  rewrite Hd2, takeN_app_len. reflexivity.
Qed.

  Theorem read_uncompressed_correct (compress : bytes -> bytes) bo h e hsep x rest :
    wf x -> lenN x < hbound h -> (e = B64 -> b64_ok rest) ->
    read_uncompressed bo h e (enc_array compress bo h None e hsep x ++ rest) = Some x.
  Proof.
    intros Hwf Hx Hrest. unfold enc_array, enc_segments.
    set (hd := header_bytes bo h [lenN x]).
    assert (Lh : lenN hd = hsize h) by apply header1_len.
    assert (Wh : wf hd) by apply wf_header_bytes.
    destruct e.
    - (* raw *)
      rewrite <- app_assoc.
      destruct (x ++ rest) as [|c r] eqn:E.
      + apply app_eq_nil in E. destruct E as [-> ->].
        apply (read_unc_separate bo h Raw _ [] []); [exact Hx| |].
        * simpl. rewrite app_nil_r. reflexivity.
        * cbn [encode decode]. fold hd. rewrite dropN_app_len. reflexivity.
      + rewrite <- E. apply (read_unc_together bo h Raw _ x rest); [exact Hx|reflexivity|].
        rewrite E. discriminate.
    - (* base64 *)
      specialize (Hrest eq_refl).
      destruct hsep.
      + (* header and data encoded separately *)
        rewrite <- app_assoc.
        destruct (b64dec_enc_app_ex x rest Hwf Hrest) as [t [Ht _]].
        apply (read_unc_separate bo h B64 _ x t); [exact Hx| |].
        * cbn [decode]. fold hd. apply b64_concat_prefix_padded; [exact Wh|]. rewrite Lh. apply hsize_mod3.
        * cbn [decode encode]. fold hd. rewrite dropN_app_len. exact Ht.
      + (* one base64 string for header ++ data *)
        assert (Whx : wf (hd ++ x)) by (apply wf_app; split; assumption).
        destruct (b64dec_enc_app_ex (hd ++ x) rest Whx Hrest) as [t [Ht Hpad]].
        destruct (x ++ t) as [|c r] eqn:E.
        * apply app_eq_nil in E. destruct E as [-> ->].
          destruct Hrest as [y Hy].
          apply (read_unc_separate bo h B64 _ [] y); [exact Hx| |].
          -- cbn [decode]. fold hd. rewrite Ht. rewrite !app_nil_r. reflexivity.
          -- cbn [decode encode]. fold hd. rewrite app_nil_r. rewrite dropN_app_len. exact Hy.
        * apply (read_unc_together bo h B64 _ x t); [exact Hx| |rewrite E; discriminate].
          cbn [decode]. fold hd. rewrite Ht. rewrite <- app_assoc. reflexivity.
  Qed.

  (* ---------------------------------------------------------------------------------------------- *)
  (* CompressorBase: any block size >= 1, any number of blocks, last partial block                    *)
  (* ---------------------------------------------------------------------------------------------- *)
  Lemma concat_chunks_fuel bs : forall fuel x, concat (chunks_fuel fuel bs x) = x.
  Proof.
    induction fuel as [|f IH]; intros x; destruct x as [|a x]; try reflexivity.
    - simpl. rewrite app_nil_r. reflexivity.
    - cbn [chunks_fuel concat]. rewrite IH. apply takeN_dropN.
  Qed.

  Lemma concat_chunks bs x : concat (chunks bs x) = x.
  Proof. apply concat_chunks_fuel. Qed.

  Lemma chunks_fuel_le bs : 0 < bs -> forall fuel x, (length x <= fuel)%nat ->
    Forall (fun b => lenN b <= bs) (chunks_fuel fuel bs x).
  Proof.
    intros Hbs. induction fuel as [|f IH]; intros x Hf; destruct x as [|a x].
    - constructor.
    - simpl in Hf. lia.
    - constructor.
    - cbn [chunks_fuel]. constructor.
      + rewrite takeN_length. lia.
      + apply IH. pose proof (dropN_length (a :: x) bs) as L. rewrite lenN_cons in L. unfold lenN in L.
        cbn [length] in Hf. lia.
  Qed.

  Lemma chunks_le bs x : 0 < bs -> Forall (fun b => lenN b <= bs) (chunks bs x).
  Proof. intros H. apply chunks_fuel_le; [exact H|]. apply Nat.le_refl. Qed.

  Lemma chunks_nil bs x : chunks bs x = [] <-> x = [].
  Proof.
    unfold chunks. destruct x as [|a x]; simpl; [tauto|]. split; intro H; discriminate.
  Qed.

  Lemma wf_chunks bs x : wf x -> Forall wf (chunks bs x).
  Proof.
    intros H. rewrite <- (concat_chunks bs x) in H. revert H. generalize (chunks bs x).
    induction l as [|b l IH]; intros H; [constructor|]. simpl in H. apply wf_app in H.
    constructor; [tauto|apply IH; tauto].
  Qed.

  Lemma chunks_fuel_nil f bs : chunks_fuel f bs [] = [].
  Proof. destruct f; reflexivity. Qed.

  (* the structure of the blocks: all but the last have exactly bs bytes, the last has |x| mod bs bytes
     (or bs when that is 0) -- the third header word *)
  Lemma chunks_fuel_shape bs : 0 < bs -> forall fuel x, (length x <= fuel)%nat -> x <> [] ->
    exists full lastb, chunks_fuel fuel bs x = full ++ [lastb] /\ Forall (fun b => lenN b = bs) full /\
      lenN lastb = (if lenN x mod bs =? 0 then bs else lenN x mod bs) /\ lenN full = (lenN x - 1) / bs.
  Proof.
    intros Hbs. induction fuel as [|f IH]; intros x Hf Hne; destruct x as [|a x]; try congruence.
    - simpl in Hf. lia.
    - cbn [chunks_fuel]. set (l := a :: x) in *.
      assert (Ll : 0 < lenN l) by (unfold l; rewrite lenN_cons; lia).
      destruct (N.le_gt_cases (lenN l) bs) as [Hsmall|Hbig].
      + rewrite (dropN_all l bs Hsmall), (takeN_all l bs Hsmall).
        exists [], l. rewrite chunks_fuel_nil. split; [reflexivity|]. split; [constructor|].
        split; [|rewrite lenN_nil; symmetry; apply N.div_small; lia].
        destruct (N.eqb_spec (lenN l mod bs) 0) as [E|E].
        * destruct (N.eq_dec (lenN l) bs) as [E2|E2]; [exact E2|]. rewrite N.mod_small in E; lia.
        * rewrite N.mod_small; [reflexivity|]. destruct (N.eq_dec (lenN l) bs) as [E2|E2]; [|lia].
          rewrite E2, N.mod_same in E; lia.
      + assert (Ld : lenN (dropN bs l) = lenN l - bs) by apply dropN_length.
        assert (Hne2 : dropN bs l <> []).
        { intro C. rewrite C, lenN_nil in Ld. lia. }
        assert (Hf2 : (length (dropN bs l) <= f)%nat).
        { assert (Ll2 : lenN l = 1 + lenN x) by (unfold l; apply lenN_cons).
          unfold lenN in Ld, Ll2. cbn [length] in Hf. lia. }
        destruct (IH (dropN bs l) Hf2 Hne2) as [full [lastb [E [Hfull [Hlast Hcount]]]]].
        exists (takeN bs l :: full), lastb. rewrite E. split; [reflexivity|]. split.
        * constructor; [rewrite takeN_length; lia|exact Hfull].
        * rewrite Ld in Hlast, Hcount.
          assert (M : (lenN l - bs) mod bs = lenN l mod bs).
          { replace (lenN l) with ((lenN l - bs) + 1 * bs) at 2 by lia. rewrite N.mod_add by lia. reflexivity. }
          rewrite M in Hlast. split; [exact Hlast|].
          rewrite lenN_cons, Hcount.
          replace (lenN l - 1) with ((lenN l - bs - 1) + 1 * bs) by lia. rewrite N.div_add by lia. lia.
  Qed.

  Lemma encode_app_mult3 e a b : lenN a mod 3 = 0 -> encode e (a ++ b) = encode e a ++ encode e b.
  Proof. intros H. destruct e; [reflexivity|]. apply b64enc_app_mult3. exact H. Qed.

  Lemma decode_encode e a : wf a -> decode e (encode e a) = Some a.
  Proof. intros H. destruct e; [reflexivity|]. apply b64_roundtrip. exact H. Qed.

  Lemma encoded_bytes_ge e n : n <= encoded_bytes e n.
  Proof. destruct e; [simpl; lia|]. rewrite encoded_bytes_b64. lia. Qed.

  Lemma sumN_map_lenN (cs : list bytes) : sumN (map lenN cs) = lenN (concat cs).
  Proof.
    induction cs as [|c cs IH]; [reflexivity|]. simpl. rewrite lenN_app, IH. reflexivity.
  Qed.

  Lemma sumN_bound l b : sumN l < b -> Forall (fun n => n < b) l.
  Proof.
    induction l as [|x l IH]; intros H; [constructor|]. simpl in H. constructor; [lia|apply IH; lia].
  Qed.

Section Reader.
  Variable compress : bytes -> bytes.
  Variable decompress : N -> bytes -> option bytes.
  Variable empty_ok : bool.

  Lemma blocks_correct bs : (forall b, wf b -> lenN b <= bs -> decompress bs (compress b) = Some b) ->
    forall bl, Forall wf bl -> Forall (fun b => lenN b <= bs) bl ->
    blocks decompress bs (map lenN (map compress bl)) (concat (map compress bl)) = Some (concat bl).
  Proof.
    intros Hdc. induction bl as [|b bl IH]; intros Hw Hl; [reflexivity|].
    apply Forall_cons_iff in Hw. apply Forall_cons_iff in Hl. destruct Hw as [Hw1 Hw2]. destruct Hl as [Hl1 Hl2].
    cbn [map concat blocks]. rewrite takeN_app_len, dropN_app_len. rewrite (Hdc b Hw1 Hl1).
    rewrite (IH Hw2 Hl2). reflexivity.
  Qed.

  Theorem read_compressed_correct bo h e hsep bs x rest :
    wf x -> 0 < bs -> bs < hbound h ->
    (forall b, wf b -> wf (compress b)) ->
    (forall b, wf b -> lenN b <= bs -> decompress bs (compress b) = Some b) ->
    lenN (chunks bs x) < hbound h ->
    lenN (concat (map compress (chunks bs x))) < hbound h ->
    (x <> [] \/ empty_ok = true) ->
    read_compressed decompress empty_ok bo h e (enc_array compress bo h (Some bs) e hsep x ++ rest) = Some x.
  Proof.
    intros Hwf Hbs Hbsb Hcw Hdc Hnb Hsum Hne.
    set (bl := chunks bs x) in *. set (cs := map compress bl) in *.
    set (sizes := map lenN cs).
    set (h3 := header_bytes bo h [lenN cs; bs; lenN x mod bs]).
    set (hz := header_bytes bo h sizes).
    set (d := concat cs) in *.
    assert (Wbl : Forall wf bl) by (apply wf_chunks; exact Hwf).
    assert (Wd : wf d).
    { unfold d, cs. apply wf_concat. apply Forall_forall. intros c Hc. apply in_map_iff in Hc.
      destruct Hc as [b [<- Hb]]. apply Hcw. rewrite Forall_forall in Wbl. apply Wbl. exact Hb. }
    assert (Lcs : lenN cs = lenN bl) by (unfold cs, lenN; rewrite map_length; reflexivity).
    assert (Ssum : sumN sizes = lenN d) by (unfold sizes; apply sumN_map_lenN).
    assert (Lh3 : lenN h3 = 3 * hsize h).
    { unfold h3. rewrite lenN_header_bytes. rewrite !lenN_cons, lenN_nil. lia. }
    assert (Lhz : lenN hz = lenN cs * hsize h).
    { unfold hz. rewrite lenN_header_bytes. unfold sizes, lenN. rewrite map_length. apply N.mul_comm. }
    assert (E : enc_array compress bo h (Some bs) e hsep x ++ rest
                = encode e h3 ++ encode e hz ++ encode e d ++ rest).
    { unfold enc_array, enc_segments. fold bl. fold cs. fold d. fold sizes.
      rewrite header_bytes_app. fold h3. fold hz.
      assert (M3 : lenN h3 mod 3 = 0) by (rewrite Lh3, N.mul_comm; apply N.mod_mul; discriminate).
      destruct e.
      - cbn [encode]. rewrite <- !app_assoc. reflexivity.
      - cbn [encode]. rewrite (b64enc_app_mult3 h3 M3). rewrite <- !app_assoc. reflexivity. }
    rewrite E. clear E.
    assert (Hhdr : read_header bo h e (encode e h3 ++ encode e hz ++ encode e d ++ rest)
                   = Some ([lenN cs; bs; lenN x mod bs] ++ sizes, lenN (encode e h3) + lenN (encode e hz))).
    { unfold read_header. cbv zeta.
      rewrite (takeN_app_len' (encode e h3)) by (rewrite encoded_bytes_is_length, Lh3; reflexivity).
      rewrite decode_encode by apply wf_header_bytes.
      rewrite (takeN_all h3) by lia.
      unfold h3 at 1. rewrite ints_of_header.
      2:{ repeat constructor; lia. }
      rewrite (dropN_app_len' (encode e h3)) by (rewrite encoded_bytes_is_length, Lh3; reflexivity).
      rewrite (takeN_app_len' (encode e hz)) by (rewrite encoded_bytes_is_length, Lhz; reflexivity).
      rewrite decode_encode by apply wf_header_bytes.
      rewrite (takeN_all hz).
      2:{ rewrite Lhz. apply encoded_bytes_ge. }
      unfold hz at 1. rewrite ints_of_header.
      2:{ apply sumN_bound. rewrite Ssum. exact Hsum. }
      rewrite !encoded_bytes_is_length, Lh3, Lhz. reflexivity. }
    unfold read_compressed. rewrite Hhdr. cbn [app skipn].
    rewrite Ssum.
    replace (encode e h3 ++ encode e hz ++ encode e d ++ rest)
      with ((encode e h3 ++ encode e hz) ++ encode e d ++ rest) by (rewrite <- app_assoc; reflexivity).
    rewrite (dropN_app_len' (encode e h3 ++ encode e hz)) by (rewrite lenN_app; reflexivity).
    rewrite (takeN_app_len' (encode e d)) by (rewrite encoded_bytes_is_length; reflexivity).
    rewrite decode_encode by exact Wd.
    unfold uncompress_blocks. rewrite Ssum.
    destruct (N.leb_spec (hbound h) (lenN d)) as [C|_]; [lia|].
    assert (Hb : blocks decompress bs sizes d = Some x).
    { unfold sizes, d, cs. rewrite (blocks_correct bs Hdc bl Wbl (chunks_le bs x Hbs)).
      unfold bl. rewrite concat_chunks. reflexivity. }
    destruct sizes as [|s0 sz] eqn:Es; [|exact Hb].
    assert (x = []).
    { apply (chunks_nil bs). fold bl. unfold sizes, cs in Es. destruct bl; [reflexivity|discriminate]. }
    subst x. destruct Hne as [Hne|Hne]; [congruence|]. rewrite Hne. reflexivity.
  Qed.

  (* ---------------------------------------------------------------------------------------------- *)
  (* appended data: offsets, and the whole-file statement                                            *)
  (* ---------------------------------------------------------------------------------------------- *)
  Theorem read_appended_at_offset (trailer : bytes) : forall segs start i s pre,
    nth_error segs i = Some s -> lenN pre = start ->
    exists off, nth_error (offsets_from start segs) i = Some off /\
                dropN off (pre ++ concat segs ++ trailer) = s ++ concat (skipn (S i) segs) ++ trailer.
  Proof.
    induction segs as [|s0 segs IH]; intros start i s pre Hn Hp.
    - destruct i; discriminate.
    - destruct i as [|i].
      + simpl in Hn. inversion Hn; subst s0. exists start. split; [reflexivity|].
        rewrite <- Hp, dropN_app_len. simpl. rewrite <- app_assoc. reflexivity.
      + simpl in Hn. destruct (IH (start + lenN s0) i s (pre ++ s0) Hn) as [off [Ho Hd]].
        { rewrite lenN_app, Hp. reflexivity. }
        exists off. split; [exact Ho|].
        change (skipn (S (S i)) (s0 :: segs)) with (skipn (S i) segs).
        cbn [concat]. rewrite <- Hd. rewrite <- !app_assoc. reflexivity.
  Qed.

  Definition array_ok (c : cfg) (x : bytes) : Prop :=
    wf x /\
    match c_comp c with
    | None => lenN x < hbound (c_h c)
    | Some bs => 0 < bs /\ bs < hbound (c_h c) /\ lenN (chunks bs x) < hbound (c_h c) /\
                 lenN (concat (map compress (chunks bs x))) < hbound (c_h c) /\
                 (x <> [] \/ empty_ok = true) /\
                 (forall b, wf b -> lenN b <= bs -> decompress bs (compress b) = Some b)
    end.

  Hypothesis compress_wf : forall b, wf b -> wf (compress b).

  Lemma seg_b64_ok c x r : cfg_enc c = B64 -> wf x -> b64_ok r -> b64_ok (seg compress c x ++ r).
  Proof.
    intros He Hx Hr. unfold seg, enc_array. rewrite He.
    destruct (enc_segments compress (c_bo c) (c_h c) (c_comp c) x) as [hd d] eqn:Es.
    assert (W : wf hd /\ wf d).
    { unfold enc_segments in Es. destruct (c_comp c) as [bs|].
      - inversion Es; subst. split; [apply wf_header_bytes|].
        apply wf_concat. apply Forall_forall. intros cb Hc. apply in_map_iff in Hc.
        destruct Hc as [b [<- Hb]]. apply compress_wf.
        pose proof (wf_chunks bs x Hx) as Wc. rewrite Forall_forall in Wc. apply Wc. exact Hb.
      - inversion Es; subst. split; [apply wf_header_bytes|exact Hx]. }
    destruct W as [Wh Wd].
    assert (G : b64_ok ((b64enc hd ++ b64enc d) ++ r)).
    { rewrite <- app_assoc. apply b64_ok_enc_app; [exact Wh|]. apply b64_ok_enc_app; assumption. }
    destruct (c_comp c); [exact G|]. destruct (c_hsep c); [exact G|].
    apply b64_ok_enc_app; [|exact Hr]. apply wf_app. split; assumption.
  Qed.

  Lemma segs_b64_ok c xs r : cfg_enc c = B64 -> Forall wf xs -> b64_ok r ->
    b64_ok (concat (map (seg compress c) xs) ++ r).
  Proof.
    intros He Hx Hr. induction Hx as [|x xs Hx Hxs IH]; [exact Hr|].
    cbn [map concat]. rewrite <- app_assoc. apply seg_b64_ok; assumption.
  Qed.

  Lemma get_decompressed_seg c x rest : array_ok c x -> (cfg_enc c = B64 -> b64_ok rest) ->
    get_decompressed decompress empty_ok (cfg_compressed c) (c_bo c) (c_h c) (cfg_enc c) (seg compress c x ++ rest)
    = Some x.
  Proof.
    intros [Hw Hok] Hr. unfold get_decompressed, cfg_compressed, seg. destruct (c_comp c) as [bs|].
    - destruct Hok as [H1 [H2 [H3 [H4 [H5 H6]]]]]. apply read_compressed_correct; assumption.
    - apply read_uncompressed_correct; assumption.
  Qed.

  (* DESIGN 7/C05 read_array_correct: every array of every file produced by a format-conforming writer, in every
     configuration, is decoded to exactly its payload *)
  Theorem read_array_correct c arrays trailer i x :
    Forall (array_ok c) arrays -> (c_fmt c = FAppB64 -> b64_ok trailer) ->
    nth_error arrays i = Some x ->
    read_file_array decompress empty_ok c (vtk_encode compress c arrays trailer) i = Some x.
  Proof.
    intros Hall Htr Hn.
    assert (Hx : array_ok c x).
    { rewrite Forall_forall in Hall. apply Hall. eapply nth_error_In. exact Hn. }
    assert (Hwf : Forall wf arrays).
    { apply Forall_forall. intros y Hy. rewrite Forall_forall in Hall. apply (Hall y Hy). }
    unfold read_file_array, vtk_encode.
    assert (Hseg : nth_error (map (seg compress c) arrays) i = Some (seg compress c x)).
    { rewrite nth_error_map, Hn. reflexivity. }
    destruct (c_fmt c) eqn:Ef.
    - (* inline base64 *)
      cbn [fst snd]. rewrite nth_error_map, Hseg. cbn [option_map read_data_array].
      assert (Ee : cfg_enc c = B64) by (unfold cfg_enc; rewrite Ef; reflexivity).
      rewrite <- Ee. rewrite <- (app_nil_r (seg compress c x)).
      apply get_decompressed_seg; [exact Hx|]. intros _. apply b64_ok_nil.
    - (* appended base64 *)
      cbn [fst snd].
      destruct (read_appended_at_offset trailer _ 0 i _ [] Hseg eq_refl) as [off [Ho Hd]].
      rewrite nth_error_map, Ho. cbn [option_map read_data_array]. cbn [app] in Hd. rewrite Hd.
      assert (Ee : cfg_enc c = B64) by (unfold cfg_enc; rewrite Ef; reflexivity).
      apply get_decompressed_seg; [exact Hx|]. intros _.
      rewrite skipn_map'. apply segs_b64_ok; [exact Ee| |apply Htr; reflexivity].
      apply Forall_forall. intros y Hy. rewrite Forall_forall in Hwf. apply Hwf.
      rewrite <- (firstn_skipn (S i) arrays). apply in_or_app. right. exact Hy.
    - (* appended raw *)
      cbn [fst snd].
      destruct (read_appended_at_offset trailer _ 0 i _ [] Hseg eq_refl) as [off [Ho Hd]].
      rewrite nth_error_map, Ho. cbn [option_map read_data_array]. cbn [app] in Hd. rewrite Hd.
      assert (Ee : cfg_enc c = Raw) by (unfold cfg_enc; rewrite Ef; reflexivity).
      apply get_decompressed_seg; [exact Hx|]. rewrite Ee. discriminate.
  Qed.
End Reader.

(* ------------------------------------------------------------------------------------------------ *)
(* values: np.frombuffer / tobytes, NumberOfComponents                                                *)
(* ------------------------------------------------------------------------------------------------ *)
Definition in_range (t : vtype) (z : Z) : Prop :=
  match t with
  | VInt w => (- (256 ^ Z.of_nat w / 2) <= z < 256 ^ Z.of_nat w / 2)%Z
  | VUInt w | VFloat w => (0 <= z < 256 ^ Z.of_nat w)%Z
  end.

Lemma value_unsigned_roundtrip t z : (0 < vwidth t)%nat -> in_range t z ->
  unsigned_of t z < 256 ^ N.of_nat (vwidth t) /\ value_of t (unsigned_of t z) = z.
Proof.
  intros Hw Hr. destruct t as [w|w|w]; simpl in *.
  - split; [apply to_unsigned_bound|apply signed_roundtrip; assumption].
  - split; [|apply Z2N.id; lia]. apply N2Z.inj_lt. rewrite Z2N.id, pow256_Z by lia. lia.
  - split; [|apply Z2N.id; lia]. apply N2Z.inj_lt. rewrite Z2N.id, pow256_Z by lia. lia.
Qed.

Lemma lenN_encode_values bo t vals : lenN (encode_values bo t vals) = N.of_nat (vwidth t) * lenN vals.
Proof.
  unfold encode_values. induction vals as [|z vals IH]; [cbn [map concat]; rewrite !lenN_nil, N.mul_0_r; reflexivity|].
  cbn [map concat]. rewrite lenN_app, IH, lenN_int_to_bytes, lenN_cons. lia.
Qed.

Lemma wf_encode_values bo t vals : wf (encode_values bo t vals).
Proof.
  unfold encode_values. apply wf_concat. apply Forall_forall. intros r Hr.
  apply in_map_iff in Hr. destruct Hr as [z [<- _]]. apply wf_int_to_bytes.
Qed.

(* values -> bytes -> values for all ten types and both byte orders *)
Theorem values_roundtrip bo t vals : (0 < vwidth t)%nat -> Forall (in_range t) vals ->
  decode_values bo t (encode_values bo t vals) = Some vals.
Proof.
  intros Hw Hr. unfold decode_values, encode_values, ints_of, words.
  rewrite splitN_concat.
  - cbn [option_map]. f_equal. rewrite !map_map. rewrite <- (map_id vals) at 2. apply map_ext_in.
    intros z Hz. rewrite Forall_forall in Hr. destruct (value_unsigned_roundtrip t z Hw (Hr z Hz)) as [B V].
    rewrite int_bytes_roundtrip by exact B. exact V.
  - lia.
  - apply Forall_forall. intros r Hin. apply in_map_iff in Hin. destruct Hin as [z [<- _]].
    apply lenN_int_to_bytes.
Qed.

(* reshape with NumberOfComponents undoes the row-major flattening *)
Theorem reshape_flatten {A} (nc : N) (rows : list (list A)) : 1 <= nc -> Forall (fun r => lenN r = nc) rows ->
  reshape nc (flatten_rows rows) = Some rows.
Proof.
  intros Hnc Hall. unfold reshape, flatten_rows.
  destruct (N.leb_spec nc 1) as [H1|H1].
  - assert (nc = 1) by lia. subst nc. f_equal. induction Hall as [|r rows Hr Hrows IH]; [reflexivity|].
    destruct r as [|a [|b r]].
    + rewrite lenN_nil in Hr. discriminate.
    + simpl. rewrite IH. reflexivity.
    + rewrite !lenN_cons in Hr. lia.
  - apply splitN_concat; [lia|exact Hall].
Qed.

Lemma lenN_concat_rows {A} (nc : N) (rows : list (list A)) : Forall (fun r => lenN r = nc) rows ->
  lenN (concat rows) = lenN rows * nc.
Proof.
  intros H. induction H as [|r rows Hr Hrows IH]; [reflexivity|].
  cbn [concat]. rewrite lenN_app, lenN_cons, IH, Hr. lia.
Qed.

(* C13, data-array level: the reader applied to what VTUWriter._make_data_array_element emits returns the rows that
   were written -- same values (bit patterns for floats), same number of components, row-major *)
Theorem vtu_write_read bo t nc rows :
  (0 < vwidth t)%nat -> 1 <= nc -> Forall (fun r => lenN r = nc) rows -> Forall (Forall (in_range t)) rows ->
  lenN rows * nc * N.of_nat (vwidth t) < 2 ^ 64 ->
  read_written_array bo t nc (write_data_array bo t nc rows) = Some rows.
Proof.
  intros Hw Hnc Hshape Hrange Hsize. unfold read_written_array, write_data_array.
  set (payload := encode_values bo t (flatten_rows rows)).
  assert (Lp : lenN payload = lenN rows * nc * N.of_nat (vwidth t)).
  { unfold payload. rewrite lenN_encode_values. unfold flatten_rows. rewrite (lenN_concat_rows nc) by exact Hshape. lia. }
  rewrite <- Lp.
  assert (E : b64enc (int_to_bytes bo 8 (lenN payload) ++ payload)
              = enc_array (fun b => b) bo H64 None B64 false payload ++ []).
  { unfold enc_array, enc_segments, header_bytes. cbn [map concat hsz]. rewrite !app_nil_r. reflexivity. }
  rewrite E. rewrite read_uncompressed_correct.
  - unfold payload. rewrite values_roundtrip.
    + apply reshape_flatten; assumption.
    + exact Hw.
    + unfold flatten_rows. apply Forall_concat. exact Hrange.
  - apply wf_encode_values.
  - rewrite Lp. exact Hsize.
  - intros _. apply b64_ok_nil.
Qed.

(* the header written by the writer, len(values) * ncomps * itemsize, is the byte length of the payload *)
Theorem writer_header_is_payload_length bo t nc rows : Forall (fun r => lenN r = nc) rows ->
  lenN rows * nc * N.of_nat (vwidth t) = lenN (encode_values bo t (flatten_rows rows)).
Proof.
  intros H. rewrite lenN_encode_values. unfold flatten_rows. rewrite (lenN_concat_rows nc) by exact H. lia.
Qed.

(* ------------------------------------------------------------------------------------------------ *)
(* VTUReader._make_mesh: regrouping of the flat connectivity / offsets / types arrays per cell type    *)
(* ------------------------------------------------------------------------------------------------ *)
Notation cell := (N * list N)%type.                         (* (vtk type id, corners) *)
Definition file_connectivity (cl : list cell) : list N := concat (map snd cl).
Definition file_offsets (cl : list cell) : list N := running 0 (map (fun c => lenN (snd c)) cl).
Definition file_types (cl : list cell) : list N := map fst cl.
Definition cells_with_type (t : N) (cl : list cell) : list (list N) := map snd (filter (fun c => fst c =? t) cl).
(* the reader takes the corner count of the first cell of a type for all cells of the type *)
Definition uniform (cl : list cell) : Prop :=
  forall c1 c2, In c1 cl -> In c2 cl -> fst c1 = fst c2 -> lenN (snd c1) = lenN (snd c2).

Lemma running_nth lens : forall acc j, (j <= length lens)%nat ->
  nth j (acc :: running acc lens) 0 = acc + sumN (firstn j lens).
Proof.
  induction lens as [|x lens IH]; intros acc j Hj.
  - simpl in Hj. assert (j = 0%nat) by lia. subst j. simpl. lia.
  - destruct j as [|j]; [simpl; lia|].
    change (nth (S j) (acc :: running acc (x :: lens)) 0) with (nth j ((acc + x) :: running (acc + x) lens) 0).
    rewrite IH by (simpl in Hj; lia). cbn [firstn sumN]. lia.
Qed.

Lemma sumN_firstn_lens (cl : list cell) j :
  sumN (firstn j (map (fun c => lenN (snd c)) cl)) = lenN (concat (map snd (firstn j cl))).
Proof.
  rewrite <- sumN_map_lenN. rewrite !firstn_map, map_map. reflexivity.
Qed.

Lemma nth_error_split {A} (l : list A) j c : nth_error l j = Some c -> l = firstn j l ++ c :: skipn (S j) l.
Proof.
  revert j. induction l as [|a l IH]; intros [|j] H; try discriminate.
  - simpl in H. inversion H; subst. reflexivity.
  - simpl in H. cbn [firstn skipn app]. f_equal. apply IH. exact H.
Qed.

Lemma cell_at_offset (cl : list cell) j c : nth_error cl j = Some c ->
  let offs0 := 0 :: file_offsets cl in
  nthN offs0 (N.of_nat j + 1) 0 - nthN offs0 (N.of_nat j) 0 = lenN (snd c) /\
  takeN (lenN (snd c)) (dropN (nthN offs0 (N.of_nat j) 0) (file_connectivity cl)) = snd c.
Proof.
  intros Hn offs0. unfold offs0, file_offsets, nthN.
  assert (Hj : (j < length cl)%nat) by (apply nth_error_Some; congruence).
  replace (N.to_nat (N.of_nat j + 1)) with (S j) by lia. rewrite Nat2N.id.
  rewrite (running_nth _ 0 (S j)) by (rewrite map_length; lia).
  rewrite (running_nth _ 0 j) by (rewrite map_length; lia).
  rewrite !sumN_firstn_lens.
  pose proof (nth_error_split cl j c Hn) as Hs.
  assert (F : firstn (S j) cl = firstn j cl ++ [c]).
  { rewrite Hs at 1. rewrite firstn_app. rewrite firstn_firstn, firstn_length.
    replace (Nat.min (S j) j) with j by lia. replace (S j - Nat.min j (length cl))%nat with 1%nat by lia.
    reflexivity. }
  rewrite F, map_app, concat_app, lenN_app. cbn [map concat]. rewrite app_nil_r. split; [lia|].
  unfold file_connectivity. rewrite Hs at 2. rewrite map_app, concat_app. cbn [map concat].
  rewrite N.add_0_l, dropN_app_len, takeN_app_len. reflexivity.
Qed.

Lemma indices_of_spec t : forall (suf : list cell) from i,
  In i (indices_of t from (map fst suf)) ->
  exists j c, i = from + N.of_nat j /\ nth_error suf j = Some c /\ fst c = t.
Proof.
  induction suf as [|c suf IH]; intros from i Hi; [destruct Hi|].
  cbn [map indices_of] in Hi. destruct (N.eqb_spec (fst c) t) as [E|E].
  - destruct Hi as [<-|Hi].
    + exists 0%nat, c. repeat split; [lia|assumption].
    + destruct (IH _ _ Hi) as [j [c' [H1 [H2 H3]]]]. exists (S j), c'. repeat split; [lia|assumption|assumption].
  - destruct (IH _ _ Hi) as [j [c' [H1 [H2 H3]]]]. exists (S j), c'. repeat split; [lia|assumption|assumption].
Qed.

Lemma indices_of_map {B} t (g : N -> B) (h : cell -> B) : forall (suf : list cell) from,
  (forall j c, nth_error suf j = Some c -> fst c = t -> g (from + N.of_nat j) = h c) ->
  map g (indices_of t from (map fst suf)) = map h (filter (fun c => fst c =? t) suf).
Proof.
  induction suf as [|c suf IH]; intros from H; [reflexivity|].
  cbn [map indices_of filter].
  assert (Ht : forall j c', nth_error suf j = Some c' -> fst c' = t -> g (from + 1 + N.of_nat j) = h c').
  { intros j c' H1 H2. replace (from + 1 + N.of_nat j) with (from + N.of_nat (S j)) by lia. apply H; assumption. }
  destruct (N.eqb_spec (fst c) t) as [E|E].
  - cbn [map]. f_equal; [|apply IH; exact Ht].
    replace from with (from + N.of_nat 0) by lia. apply H; [reflexivity|exact E].
  - apply IH. exact Ht.
Qed.

Theorem cells_of_type_correct (cl : list cell) t :
  cells_of_type (file_connectivity cl) (0 :: file_offsets cl) (file_types cl) t = cells_with_type t cl.
Proof.
  unfold cells_of_type, cells_with_type, file_types.
  apply indices_of_map. intros j c Hn Hc. rewrite N.add_0_l.
  destruct (cell_at_offset cl j c Hn) as [Hnc Hcell]. rewrite Hnc. exact Hcell.
Qed.

(* np.unique(types): ascending, without repetition, the same set *)
Lemma insert_uniq_in t l u : In u (insert_uniq t l) <-> u = t \/ In u l.
Proof.
  induction l as [|a l IH]; simpl; [intuition|].
  destruct (N.ltb_spec t a); [simpl; intuition|].
  destruct (N.eqb_spec t a); [subst; simpl; intuition|]. simpl. rewrite IH. intuition.
Qed.

Lemma unique_sorted_in l u : In u (unique_sorted l) <-> In u l.
Proof.
  unfold unique_sorted. induction l as [|a l IH]; simpl; [tauto|]. rewrite insert_uniq_in, IH. intuition.
Qed.

Fixpoint ascending (l : list N) : Prop :=
  match l with
  | a :: ((b :: _) as r) => a < b /\ ascending r
  | _ => True
  end.

Lemma insert_uniq_ascending t l : ascending l -> ascending (insert_uniq t l).
Proof.
  induction l as [|a l IH]; intros H; [exact I|].
  cbn [insert_uniq]. destruct (N.ltb_spec t a) as [Hlt|Hge]; [split; assumption|].
  destruct (N.eqb_spec t a) as [E|E]; [exact H|].
  destruct l as [|b l].
  - simpl. split; [lia|exact I].
  - destruct H as [Hab Hr]. specialize (IH Hr). cbn [insert_uniq] in *.
    destruct (N.ltb_spec t b); [split; [lia|exact IH]|].
    destruct (N.eqb_spec t b); [split; assumption|]. split; [assumption|exact IH].
Qed.

Lemma unique_sorted_ascending l : ascending (unique_sorted l).
Proof.
  unfold unique_sorted. induction l as [|a l IH]; [exact I|]. simpl. apply insert_uniq_ascending. exact IH.
Qed.

(* DESIGN 7/C05 vtu_regroup_correct: the mesh handed out by the reader has, for every cell type occurring in the file
   (in ascending type id), exactly the cells of that type in file order -- whatever the interleaving in the file *)
Theorem vtu_regroup_correct (cl : list cell) :
  regroup_cells (file_connectivity cl) (file_offsets cl) (file_types cl)
  = map (fun t => (t, cells_with_type t cl)) (unique_sorted (file_types cl)).
Proof.
  unfold regroup_cells. apply map_ext. intros t. rewrite cells_of_type_correct. reflexivity.
Qed.

(* cell data: entire_array[index_map[ct]] picks the rows of the cells of that type, in file order *)
Lemma regroup_rows_aux {A} (d : A) t : forall (cl : list cell) (pre rows : list A) from,
  length rows = length cl -> from = lenN pre ->
  map (fun i => nthN (pre ++ rows) i d) (indices_of t from (map fst cl))
  = map snd (filter (fun cr => fst (fst cr) =? t) (combine cl rows)).
Proof.
  induction cl as [|c cl IH]; intros pre rows from Hl Hf; [reflexivity|].
  destruct rows as [|r rows]; [discriminate|]. cbn [map indices_of combine filter fst].
  assert (IH' := IH (pre ++ [r]) rows (from + 1)).
  rewrite <- app_assoc in IH'. cbn [app] in IH'.
  assert (Hl' : length rows = length cl) by (simpl in Hl; lia).
  assert (Hf' : from + 1 = lenN (pre ++ [r])) by (rewrite lenN_app, lenN_cons, lenN_nil; lia).
  destruct (N.eqb_spec (fst c) t) as [E|E].
  - cbn [map snd]. f_equal; [|apply IH'; assumption].
    unfold nthN. rewrite Hf. unfold lenN. rewrite Nat2N.id, app_nth2, Nat.sub_diag by lia. reflexivity.
  - apply IH'; assumption.
Qed.

Theorem regroup_cell_data_correct {A} (cl : list cell) (rows : list A) (d : A) : length rows = length cl ->
  regroup_cell_data rows (file_types cl) d
  = map (fun t => (t, map snd (filter (fun cr => fst (fst cr) =? t) (combine cl rows)))) (unique_sorted (file_types cl)).
Proof.
  intros Hl. unfold regroup_cell_data. apply map_ext. intros t. f_equal. unfold file_types.
  apply (regroup_rows_aux d t cl [] rows 0 Hl eq_refl).
Qed.

(* ------------------------------------------------------------------------------------------------ *)
(* VTUWriter: cells type by type in mesh order; the reader hands them back per type                   *)
(* ------------------------------------------------------------------------------------------------ *)
Notation groups := (list (N * list (list N))).

Lemma writer_arrays_are_file_arrays (g : groups) :
  writer_connectivity g = file_connectivity (writer_cells g) /\
  writer_offsets g = file_offsets (writer_cells g) /\
  writer_types g = file_types (writer_cells g).
Proof. repeat split. Qed.

Lemma cells_with_type_app t a b : cells_with_type t (a ++ b) = cells_with_type t a ++ cells_with_type t b.
Proof. unfold cells_with_type. rewrite filter_app, map_app. reflexivity. Qed.

Lemma cells_with_type_group t t0 (cs : list (list N)) :
  cells_with_type t (map (fun c => (t0, c)) cs) = if t0 =? t then cs else [].
Proof.
  unfold cells_with_type. induction cs as [|c cs IH]; [destruct (t0 =? t); reflexivity|].
  cbn [map filter fst]. destruct (t0 =? t) eqn:E; cbn [map snd]; rewrite IH; reflexivity.
Qed.

Lemma writer_cells_cons t0 cs (g : groups) :
  writer_cells ((t0, cs) :: g) = map (fun c => (t0, c)) cs ++ writer_cells g.
Proof. reflexivity. Qed.

Lemma cells_with_type_absent t (g : groups) : ~ In t (map fst g) -> cells_with_type t (writer_cells g) = [].
Proof.
  induction g as [|[t0 cs] g IH]; intros H; [reflexivity|].
  rewrite writer_cells_cons, cells_with_type_app.
  rewrite cells_with_type_group. simpl in H.
  destruct (N.eqb_spec t0 t) as [E|E]; [exfalso; apply H; left; exact E|].
  apply IH. intro C. apply H. right. exact C.
Qed.

Lemma cells_with_type_present t cs (g : groups) : NoDup (map fst g) -> In (t, cs) g ->
  cells_with_type t (writer_cells g) = cs.
Proof.
  induction g as [|[t0 cs0] g IH]; intros Hnd Hin; [destruct Hin|].
  rewrite writer_cells_cons, cells_with_type_app.
  rewrite cells_with_type_group. simpl in Hnd. inversion Hnd as [|? ? Hnot Hnd']; subst.
  destruct Hin as [E|Hin].
  - inversion E; subst. rewrite N.eqb_refl. rewrite (cells_with_type_absent t g Hnot). apply app_nil_r.
  - destruct (N.eqb_spec t0 t) as [E|E].
    + exfalso. apply Hnot. subst t0. apply in_map_iff. exists (t, cs). split; [reflexivity|exact Hin].
    + apply IH; assumption.
Qed.

Lemma in_writer_cells (g : groups) t c : In (t, c) (writer_cells g) <-> exists cs, In (t, cs) g /\ In c cs.
Proof.
  unfold writer_cells. rewrite in_concat. split.
  - intros [l [Hl Hc]]. apply in_map_iff in Hl. destruct Hl as [[t0 cs] [<- Hg]].
    apply in_map_iff in Hc. destruct Hc as [c' [E Hc']]. inversion E; subst. exists cs. split; assumption.
  - intros [cs [Hg Hc]]. exists (map (fun c => (t, c)) cs). split.
    + apply in_map_iff. exists (t, cs). split; [reflexivity|exact Hg].
    + apply in_map_iff. exists c. split; [reflexivity|exact Hc].
Qed.

(* the mesh's connectivity arrays are two-dimensional: all cells of one type have the same number of corners *)
Definition rectangular (g : groups) : Prop :=
  forall t cs, In (t, cs) g -> exists k, Forall (fun c => lenN c = k) cs.

Lemma writer_cells_uniform (g : groups) : NoDup (map fst g) -> rectangular g -> uniform (writer_cells g).
Proof.
  intros Hnd Hrect [t1 c1] [t2 c2] H1 H2 Et. cbn [fst snd] in *. subst t2.
  apply in_writer_cells in H1. apply in_writer_cells in H2.
  destruct H1 as [cs1 [G1 C1]]. destruct H2 as [cs2 [G2 C2]].
  assert (cs1 = cs2).
  { rewrite <- (cells_with_type_present t1 cs1 g Hnd G1). apply (cells_with_type_present t1 cs2 g Hnd G2). }
  subst cs2. destruct (Hrect t1 cs1 G1) as [k Hk]. rewrite Forall_forall in Hk.
  rewrite (Hk c1 C1), (Hk c2 C2). reflexivity.
Qed.

(* C13, mesh level: cells written type by type are read back per type: ascending type ids, and for every type of the
   mesh exactly its cells in the mesh's order (a type without cells does not occur in the file); the cells of one type
   need not have one corner count (polygon blocks) *)
Theorem vtu_cells_write_read (g : groups) : NoDup (map fst g) ->
  let r := regroup_cells (writer_connectivity g) (writer_offsets g) (writer_types g) in
  ascending (map fst r) /\
  (forall t cs, In (t, cs) g -> cs <> [] -> In (t, cs) r) /\
  (forall t cs, In (t, cs) r -> In (t, cs) g /\ cs <> []).
Proof.
  intros Hnd r.
  assert (Er : r = map (fun t => (t, cells_with_type t (writer_cells g))) (unique_sorted (file_types (writer_cells g)))).
  { unfold r. apply (vtu_regroup_correct (writer_cells g)). }
  assert (Htypes : forall t, In t (file_types (writer_cells g)) <-> exists cs, In (t, cs) g /\ cs <> []).
  { intros t. unfold file_types. rewrite in_map_iff. split.
    - intros [[t' c] [E Hin]]. cbn [fst] in E. subst t'. apply in_writer_cells in Hin.
      destruct Hin as [cs [Hg Hc]]. exists cs. split; [exact Hg|]. intro C. subst cs. destruct Hc.
    - intros [cs [Hg Hne]]. destruct cs as [|c cs]; [congruence|]. exists (t, c). split; [reflexivity|].
      apply in_writer_cells. exists (c :: cs). split; [exact Hg|left; reflexivity]. }
  rewrite Er. repeat split.
  - rewrite map_map. cbn [fst]. rewrite map_id. apply unique_sorted_ascending.
  - intros t cs Hg Hne. apply in_map_iff. exists t. split.
    + rewrite (cells_with_type_present t cs g Hnd Hg). reflexivity.
    + apply unique_sorted_in. apply Htypes. exists cs. split; assumption.
  - apply in_map_iff in H. destruct H as [t' [E Hin]]. inversion E; subst t'. subst cs.
    apply (proj1 (unique_sorted_in _ _)) in Hin. apply (proj1 (Htypes _)) in Hin. destruct Hin as [cs [Hg Hne]].
    rewrite (cells_with_type_present t cs g Hnd Hg). exact Hg.
  - apply in_map_iff in H. destruct H as [t' [E Hin]]. inversion E; subst t'. subst cs.
    apply (proj1 (unique_sorted_in _ _)) in Hin. apply (proj1 (Htypes _)) in Hin. destruct Hin as [cs [Hg Hne]].
    rewrite (cells_with_type_present t cs g Hnd Hg). exact Hne.
Qed.

(* points padded to three coordinates: the given coordinates followed by zeros *)
Theorem pad3_spec {A} (z : A) (p : list A) : (1 <= length p <= 3)%nat ->
  length (pad3 z p) = 3%nat /\ firstn (length p) (pad3 z p) = p /\
  Forall (fun x => x = z) (skipn (length p) (pad3 z p)).
Proof.
  intros H. destruct p as [|a [|b [|c [|d p]]]]; simpl in H; try lia; simpl; repeat split; repeat constructor.
Qed.

(* ------------------------------------------------------------------------------------------------ *)
(* C18, codec layer: a truncated array payload is never read as the full array                        *)
(* ------------------------------------------------------------------------------------------------ *)
Definition proper_prefix (p s : bytes) : Prop := exists r, r <> [] /\ s = p ++ r.

Lemma prefix_cons {A} (p r : list A) a l : p ++ r = a :: l -> (p = [] /\ r = a :: l) \/ (exists p', p = a :: p' /\ p' ++ r = l).
Proof.
  destruct p as [|b p]; simpl; intros H; [left; auto|]. inversion H; subst. right. exists p. auto.
Qed.

Lemma dec_end_1 a p : b64dec_go [a] p [] = None. Proof. reflexivity. Qed.
Lemma dec_end_2 a b p : b64dec_go [a; b] p [] = None. Proof. reflexivity. Qed.
Lemma dec_end_3 a b c p : b64dec_go [a; b; c] p [] = None. Proof. reflexivity. Qed.

Lemma dec_pad_2_end a b : b64dec_go [a; b] 0 [pad] = None.
Proof. reflexivity. Qed.

(* decoding a proper prefix of an encoded string: an error, or the bytes of the complete quads only *)
Lemma b64dec_proper_prefix : forall z, wf z -> forall p r, b64enc z = p ++ r -> r <> [] ->
  b64dec p = None \/ exists k, b64dec p = Some (takeN (3 * k) z) /\ 3 * k < lenN z.
Proof.
  unfold b64dec. intros z. induction z as [|x|x y|x y z' rest IH] using list_ind3; intros Hwf p r He Hr.
  - simpl in He. symmetry in He. apply app_eq_nil in He. destruct He; congruence.
  - (* one byte: a1 a2 = = *)
    inversion Hwf as [|? ? Hx _]; subst. cbn [b64enc] in He. symmetry in He.
    apply prefix_cons in He. destruct He as [[-> _]|[p1 [-> He]]].
    { right. exists 0. split; [reflexivity|rewrite lenN_cons; lia]. }
    left. apply prefix_cons in He. destruct He as [[-> _]|[p2 [-> He]]].
    { rewrite dec_step_0 by lia. reflexivity. }
    apply prefix_cons in He. destruct He as [[-> _]|[p3 [-> He]]].
    { rewrite dec_step_0, dec_step_1 by lia. reflexivity. }
    apply prefix_cons in He. destruct He as [[-> _]|[p4 [-> He]]].
    { rewrite dec_step_0, dec_step_1 by lia. reflexivity. }
    apply app_eq_nil in He. destruct He; congruence.
  - (* two bytes: a1 a2 a3 = *)
    inversion Hwf as [|? ? Hx Hr2]; subst. inversion Hr2 as [|? ? Hy _]; subst.
    cbn [b64enc] in He. symmetry in He.
    apply prefix_cons in He. destruct He as [[-> _]|[p1 [-> He]]].
    { right. exists 0. split; [reflexivity|rewrite !lenN_cons; lia]. }
    left. apply prefix_cons in He. destruct He as [[-> _]|[p2 [-> He]]].
    { rewrite dec_step_0 by lia. reflexivity. }
    apply prefix_cons in He. destruct He as [[-> _]|[p3 [-> He]]].
    { rewrite dec_step_0, dec_step_1 by lia. reflexivity. }
    apply prefix_cons in He. destruct He as [[-> _]|[p4 [-> He]]].
    { rewrite dec_step_0, dec_step_1, dec_step_2 by lia. reflexivity. }
    apply app_eq_nil in He. destruct He; congruence.
  - (* a full group followed by the rest *)
    inversion Hwf as [|? ? Hx Hr2]; subst. inversion Hr2 as [|? ? Hy Hr3]; subst. inversion Hr3 as [|? ? Hz Hrest]; subst.
    cbn [b64enc] in He. symmetry in He.
    apply prefix_cons in He. destruct He as [[-> _]|[p1 [-> He]]].
    { right. exists 0. split; [reflexivity|rewrite !lenN_cons; lia]. }
    apply prefix_cons in He. destruct He as [[-> _]|[p2 [-> He]]].
    { left. rewrite dec_step_0 by lia. reflexivity. }
    apply prefix_cons in He. destruct He as [[-> _]|[p3 [-> He]]].
    { left. rewrite dec_step_0, dec_step_1 by lia. reflexivity. }
    apply prefix_cons in He. destruct He as [[-> _]|[p4 [-> He]]].
    { left. rewrite dec_step_0, dec_step_1, dec_step_2 by lia. reflexivity. }
    rewrite dec_quad by assumption. symmetry in He.
    destruct (IH Hrest p4 r He Hr) as [Hn|[k [Hk Hlt]]].
    + left. rewrite Hn. reflexivity.
    + right. exists (k + 1). rewrite Hk. cbn [option_map]. split.
      * f_equal. rewrite !takeN_firstn. replace (N.to_nat (3 * (k + 1))) with (S (S (S (N.to_nat (3 * k))))) by lia.
        reflexivity.
      * rewrite !lenN_cons. lia.
Qed.

Lemma lenN_takeN_le {A} (l : list A) n : lenN (takeN n l) <= lenN l.
Proof. rewrite takeN_length. lia. Qed.

Definition truncated_ok (x : bytes) (res : option bytes) : Prop :=
  match res with None => True | Some y => lenN y < lenN x end.

(* uncompressed arrays, raw or base64, both header placements: for every proper prefix of the stored byte string the
   reader fails or returns fewer bytes than the header declares -- never the full array *)
Theorem truncated_payload_rejected (compress : bytes -> bytes) bo h e hsep x p :
  wf x -> lenN x < hbound h ->
  proper_prefix p (enc_array compress bo h None e hsep x) ->
  truncated_ok x (read_uncompressed bo h e p).
Proof.
  intros Hwf Hx [r [Hr Hp]]. unfold enc_array, enc_segments in Hp.
  set (hd := header_bytes bo h [lenN x]) in *.
  assert (Lh : lenN hd = hsize h) by apply header1_len.
  assert (Wh : wf hd) by apply wf_header_bytes.
  assert (Raw_case : forall q s, hd ++ x = q ++ s -> s <> [] -> truncated_ok x (read_uncompressed bo h Raw q)).
  { intros q s Hq Hs. unfold read_uncompressed. cbn [decode encode]. cbv zeta.
    assert (Lq : lenN q + lenN s = hsize h + lenN x) by (rewrite <- Lh, <- !lenN_app, Hq; reflexivity).
    assert (Ls : 0 < lenN s) by (destruct s; [congruence|rewrite lenN_cons; lia]).
    destruct (N.ltb_spec (lenN q) (hsize h)) as [C|C]; [exact I|].
    destruct (N.eqb_spec (lenN q) (hsize h)) as [C2|C2].
    - rewrite dropN_all by lia. cbn [takeN]. unfold truncated_ok. rewrite lenN_nil. lia.
    - unfold truncated_ok. pose proof (lenN_takeN_le (dropN (hsize h) q) (bytes_to_int bo (takeN (hsize h) q))) as L1.
      rewrite dropN_length in L1. lia. }
  destruct e.
  - (* raw *) apply (Raw_case p r); [exact Hp|exact Hr].
  - destruct hsep.
    + (* header and data encoded separately *)
      apply app_eq_app in Hp. destruct Hp as [l [[H1 H2]|[H1 H2]]].
      * (* the cut is inside the header string *)
        destruct l as [|c l].
        -- (* p is exactly the header string *)
           rewrite app_nil_r in H1. subst p. cbn [app] in H2.
           unfold read_uncompressed. cbn [decode encode]. cbv zeta. rewrite b64_roundtrip by exact Wh.
           rewrite Lh, N.ltb_irrefl, N.eqb_refl. rewrite dropN_all by lia.
           unfold b64dec. cbn [b64dec_go takeN]. unfold truncated_ok. rewrite lenN_nil.
           destruct x as [|a x]; [simpl in H2; congruence|rewrite lenN_cons; lia].
        -- assert (Hl : c :: l <> []) by discriminate.
           destruct (b64dec_proper_prefix hd Wh p (c :: l) H1 Hl) as [Hn|[k [Hk Hlt]]].
           ++ unfold read_uncompressed. cbn [decode]. rewrite Hn. exact I.
           ++ unfold read_uncompressed. cbn [decode]. rewrite Hk. cbv zeta.
              assert (Lt : lenN (takeN (3 * k) hd) = 3 * k) by (rewrite takeN_length; lia).
              rewrite Lt. destruct (N.ltb_spec (3 * k) (hsize h)) as [_|C]; [exact I|lia].
      * (* the cut is inside the data string (or right at its beginning) *)
        subst p. unfold read_uncompressed. cbn [decode encode]. cbv zeta.
        rewrite (b64_concat_prefix_padded hd l Wh) by (rewrite Lh; apply hsize_mod3).
        rewrite Lh, N.ltb_irrefl, N.eqb_refl. rewrite dropN_app_len.
        destruct (b64dec_proper_prefix x Hwf l r H2 Hr) as [Hn|[k [Hk Hlt]]].
        -- rewrite Hn. exact I.
        -- rewrite Hk. unfold truncated_ok. rewrite !takeN_length. lia.
    + (* one base64 string for header ++ data *)
      assert (Whx : wf (hd ++ x)) by (apply wf_app; split; assumption).
      destruct (b64dec_proper_prefix (hd ++ x) Whx p r Hp Hr) as [Hn|[k [Hk Hlt]]].
      * unfold read_uncompressed. cbn [decode]. rewrite Hn. exact I.
      * unfold read_uncompressed. cbn [decode]. rewrite Hk. cbv zeta.
        rewrite lenN_app, Lh in Hlt.
        assert (Lt : lenN (takeN (3 * k) (hd ++ x)) = 3 * k) by (rewrite takeN_length, lenN_app; lia).
        rewrite Lt. destruct (N.ltb_spec (3 * k) (hsize h)) as [_|C]; [exact I|].
        destruct (N.eqb_spec (3 * k) (hsize h)) as [C2|C2].
        -- exfalso. apply (hsize_mod3 h). rewrite <- C2. rewrite N.mul_comm. apply N.mod_mul. discriminate.
        -- unfold truncated_ok. pose proof (lenN_takeN_le (dropN (hsize h) (takeN (3 * k) (hd ++ x)))
                                 (bytes_to_int bo (takeN (hsize h) (takeN (3 * k) (hd ++ x))))) as L1.
           rewrite dropN_length, Lt in L1. lia.
Qed.

(* ------------------------------------------------------------------------------------------------ *)
(* C18, codec layer, compressed arrays: a truncated stored string is rejected (or yields no data)     *)
(* ------------------------------------------------------------------------------------------------ *)
Lemma split_fuel_mono {A} (w : N) : 0 < w -> forall f (l : list A) f', (length l <= f)%nat -> (length l <= f')%nat ->
  split_fuel f w l = split_fuel f' w l.
Proof.
  intros Hw. induction f as [|f IH]; intros l f' H1 H2.
  - destruct l; [destruct f'; reflexivity|simpl in H1; lia].
  - destruct l as [|a l]; [destruct f'; reflexivity|].
    destruct f' as [|f']; [simpl in H2; lia|].
    cbn [split_fuel]. destruct (lenN (a :: l) <? w); [reflexivity|].
    assert (L : lenN (dropN w (a :: l)) = lenN (a :: l) - w) by apply dropN_length.
    rewrite lenN_cons in L. unfold lenN in L. cbn [length] in H1, H2.
    rewrite (IH (dropN w (a :: l)) f') by lia. reflexivity.
Qed.

Lemma splitN_app_word {A} (w : N) (W l : list A) : 0 < w -> lenN W = w ->
  splitN w (W ++ l) = option_map (cons W) (splitN w l).
Proof.
  intros Hw HW. unfold splitN. destruct W as [|a W]; [rewrite lenN_nil in HW; lia|].
  cbn [app length split_fuel]. change (a :: W ++ l) with ((a :: W) ++ l).
  destruct (N.ltb_spec (lenN ((a :: W) ++ l)) w) as [C|C]; [rewrite lenN_app in C; lia|].
  rewrite <- HW, takeN_app_len, dropN_app_len, HW.
  rewrite (split_fuel_mono w Hw (length (W ++ l)) l (length l)); [reflexivity| |lia].
  rewrite app_length. lia.
Qed.

Lemma splitN_short {A} (w : N) (l : list A) : l <> [] -> lenN l < w -> splitN w l = None.
Proof.
  intros Hne Hl. unfold splitN. destruct l as [|a l]; [congruence|]. cbn [length split_fuel].
  destruct (N.ltb_spec (lenN (a :: l)) w); [reflexivity|lia].
Qed.

(* the words of a prefix of a header: an error (cut inside a word) or the first j words *)
Lemma ints_of_prefix bo h : forall ints a' s, Forall (fun n => n < hbound h) ints ->
  header_bytes bo h ints = a' ++ s ->
  ints_of bo (hsize h) a' = None \/
  exists j, ints_of bo (hsize h) a' = Some (firstn j ints) /\ (j <= length ints)%nat /\ (s <> [] -> (j < length ints)%nat).
Proof.
  induction ints as [|i ints IH]; intros a' s Hb He.
  - unfold header_bytes in He. simpl in He. symmetry in He. apply app_eq_nil in He. destruct He as [-> ->].
    right. exists 0%nat. repeat split; [lia|congruence].
  - apply Forall_cons_iff in Hb. destruct Hb as [Hi Hb].
    unfold header_bytes in He. cbn [map concat] in He. fold (header_bytes bo h ints) in He.
    set (W := int_to_bytes bo (hsz h) i) in *.
    assert (LW : lenN W = hsize h) by apply lenN_int_to_bytes.
    destruct a' as [|c a'].
    + right. exists 0%nat. repeat split; [simpl; lia|simpl; lia].
    + destruct (N.lt_ge_cases (lenN (c :: a')) (hsize h)) as [Hs|Hl].
      * left. unfold ints_of, words. rewrite splitN_short; [reflexivity|discriminate|exact Hs].
      * (* a' starts with the whole word *)
        apply app_eq_app in He. destruct He as [l [[H1 H2]|[H1 H2]]].
        -- (* W = (c :: a') ++ l : only possible with l = [] *)
           assert (l = []).
           { apply lenN_zero. rewrite H1, lenN_app in LW. lia. }
           subst l. rewrite app_nil_r in H1. cbn [app] in H2. subst s.
           destruct (IH [] (header_bytes bo h ints) Hb eq_refl) as [Hn|[j [Hj [Hle Hlt]]]].
           ++ unfold ints_of, words, splitN in Hn. simpl in Hn. discriminate.
           ++ right. exists 1%nat. rewrite <- H1. unfold ints_of, words.
              rewrite <- (app_nil_r W). rewrite splitN_app_word by (try apply hsize_pos; exact LW).
              unfold splitN. cbn [length split_fuel option_map map firstn]. unfold W. rewrite int_bytes_roundtrip by exact Hi.
              repeat split; [simpl; lia|]. intros Hne. destruct ints; [unfold header_bytes in Hne; simpl in Hne; congruence|simpl; lia].
        -- rewrite H1. destruct (IH l s Hb H2) as [Hn|[j [Hj [Hle Hlt]]]].
           ++ left. unfold ints_of, words in *. rewrite splitN_app_word by (try apply hsize_pos; exact LW).
              destruct (splitN (hsize h) l); [discriminate|reflexivity].
           ++ right. exists (S j). unfold ints_of, words in *. rewrite splitN_app_word by (try apply hsize_pos; exact LW).
              destruct (splitN (hsize h) l) as [ws|]; [|discriminate]. cbn [option_map map firstn] in *.
              inversion Hj as [Hj']. unfold W. rewrite int_bytes_roundtrip by exact Hi.
              repeat split; [simpl; lia|intros Hne; specialize (Hlt Hne); simpl; lia].
Qed.

Lemma decode_proper_prefix e a q r : wf a -> encode e a = q ++ r -> r <> [] ->
  decode e q = None \/ exists a' s, decode e q = Some a' /\ a = a' ++ s /\ s <> [].
Proof.
  intros Hwf He Hr. destruct e; cbn [encode decode] in *.
  - right. exists q, r. auto.
  - destruct (b64dec_proper_prefix a Hwf q r He Hr) as [Hn|[k [Hk Hlt]]]; [left; exact Hn|right].
    exists (takeN (3 * k) a), (dropN (3 * k) a). split; [exact Hk|]. split; [symmetry; apply takeN_dropN|].
    intro C. pose proof (dropN_length a (3 * k)) as L. rewrite C, lenN_nil in L. lia.
Qed.

Lemma decode_nil e : decode e [] = Some [].
Proof. destruct e; reflexivity. Qed.

Lemma sumN_firstn_le l : forall j, sumN (firstn j l) <= sumN l.
Proof. induction l as [|x l IH]; intros [|j]; simpl; try lia. specialize (IH j). lia. Qed.

Section TruncatedCompressed.
  Variable compress : bytes -> bytes.
  Variable decompress : N -> bytes -> option bytes.
  Variable empty_ok : bool.
  Variable bs : N.
  (* the decompressor rejects an incomplete block (zlib, lzma: "incomplete stream"; an assumption about the library) *)
  Hypothesis decompress_rejects_prefix : forall b q, wf b -> proper_prefix q (compress b) -> decompress bs q = None.
  Hypothesis decompress_rejects_empty : decompress bs [] = None.

  Lemma blocks_truncated : forall bl dd rr, Forall wf bl -> rr <> [] -> dd ++ rr = concat (map compress bl) ->
    blocks decompress bs (map lenN (map compress bl)) dd = None.
  Proof.
    induction bl as [|b bl IH]; intros dd rr Hw Hr He.
    - simpl in He. apply app_eq_nil in He. destruct He; congruence.
    - apply Forall_cons_iff in Hw. destruct Hw as [Hb Hbl].
      cbn [map concat blocks] in *. set (c := compress b) in *.
      apply app_eq_app in He. destruct He as [l [[H1 H2]|[H1 H2]]].
      + (* dd = c ++ l *)
        subst dd. rewrite takeN_app_len, dropN_app_len.
        destruct (decompress bs c); [|reflexivity]. rewrite (IH l rr Hbl Hr (eq_sym H2)). reflexivity.
      + (* c = dd ++ l *)
        destruct l as [|a l].
        * rewrite app_nil_r in H1. subst dd. cbn [app] in H2.
          rewrite takeN_len_self. rewrite dropN_all by lia.
          destruct (decompress bs c); [|reflexivity].
          rewrite (IH [] rr Hbl Hr); [reflexivity|]. cbn [app]. exact H2.
        * assert (T : takeN (lenN c) dd = dd).
          { apply takeN_all. rewrite H1, lenN_app. lia. }
          rewrite T. rewrite (decompress_rejects_prefix b dd Hb); [reflexivity|].
          exists (a :: l). split; [discriminate|exact H1].
  Qed.

  Definition rejected (res : option bytes) : Prop := match res with None => True | Some y => y = [] end.

  Theorem truncated_compressed_rejected bo h e hsep x p :
    wf x -> 0 < bs -> bs < hbound h ->
    (forall b, wf b -> wf (compress b)) ->
    lenN (chunks bs x) < hbound h ->
    lenN (concat (map compress (chunks bs x))) < hbound h ->
    proper_prefix p (enc_array compress bo h (Some bs) e hsep x) ->
    rejected (read_compressed decompress empty_ok bo h e p).
  Proof.
    intros Hwf Hbs Hbsb Hcw Hnb Hsum [r [Hr Hp]].
    set (bl := chunks bs x) in *. set (cs := map compress bl) in *.
    set (sizes := map lenN cs).
    set (h3 := header_bytes bo h [lenN cs; bs; lenN x mod bs]).
    set (hz := header_bytes bo h sizes).
    set (d := concat cs) in *.
    assert (Wbl : Forall wf bl) by (apply wf_chunks; exact Hwf).
    assert (Wd : wf d).
    { unfold d, cs. apply wf_concat. apply Forall_forall. intros c Hc. apply in_map_iff in Hc.
      destruct Hc as [b [<- Hb]]. apply Hcw. rewrite Forall_forall in Wbl. apply Wbl. exact Hb. }
    assert (Lcs : lenN cs = lenN bl) by (unfold cs, lenN; rewrite map_length; reflexivity).
    assert (Ssum : sumN sizes = lenN d) by (unfold sizes; apply sumN_map_lenN).
    assert (Lh3 : lenN h3 = 3 * hsize h).
    { unfold h3. rewrite lenN_header_bytes. rewrite !lenN_cons, lenN_nil. lia. }
    assert (Lhz : lenN hz = lenN cs * hsize h).
    { unfold hz. rewrite lenN_header_bytes. unfold sizes, lenN. rewrite map_length. apply N.mul_comm. }
    assert (Bh3 : Forall (fun n => n < hbound h) [lenN cs; bs; lenN x mod bs]) by (repeat constructor; lia).
    assert (Bsz : Forall (fun n => n < hbound h) sizes) by (apply sumN_bound; rewrite Ssum; exact Hsum).
    assert (E : enc_array compress bo h (Some bs) e hsep x = encode e h3 ++ encode e hz ++ encode e d).
    { unfold enc_array, enc_segments. fold bl. fold cs. fold d. fold sizes.
      rewrite header_bytes_app. fold h3. fold hz.
      assert (M3 : lenN h3 mod 3 = 0) by (rewrite Lh3, N.mul_comm; apply N.mod_mul; discriminate).
      destruct e.
      - cbn [encode]. rewrite <- !app_assoc. reflexivity.
      - cbn [encode]. rewrite (b64enc_app_mult3 h3 M3). rewrite <- !app_assoc. reflexivity. }
    rewrite E in Hp. clear E.
    assert (Eh : encoded_bytes e (3 * hsize h) = lenN (encode e h3)) by (rewrite encoded_bytes_is_length, Lh3; reflexivity).
    assert (Ez : encoded_bytes e (lenN cs * hsize h) = lenN (encode e hz)) by (rewrite encoded_bytes_is_length, Lhz; reflexivity).
    assert (Hpos : 0 < hbound h) by (unfold hbound; apply N.neq_0_lt_0; apply N.pow_nonzero; discriminate).
    (* the end of every branch in which no (or an empty list of) block sizes is left *)
    assert (Fin0 : forall dd, rejected (uncompress_blocks decompress empty_ok h bs [] dd)).
    { intros dd. unfold uncompress_blocks. cbn [sumN]. destruct (hbound h <=? 0); [exact I|]. destruct empty_ok; simpl; auto. }
    assert (Cases : (exists l, l <> [] /\ encode e h3 = p ++ l) \/
                    (exists q, p = encode e h3 ++ q /\ q ++ r = encode e hz ++ encode e d)).
    { apply app_eq_app in Hp. destruct Hp as [l [[H1 H2]|[H1 H2]]].
      - destruct l as [|c0 l].
        + right. exists []. rewrite app_nil_r in H1. rewrite app_nil_r. split; [symmetry; exact H1|exact H2].
        + left. exists (c0 :: l). split; [discriminate|exact H1].
      - right. exists l. split; [exact H1|symmetry; exact H2]. }
    destruct Cases as [[l [Hl H1]]|[q [Hq Hqr]]].
    - (* A: the cut is inside the three-word header *)
      assert (Lp : lenN p < lenN (encode e h3)).
      { rewrite H1, lenN_app. destruct l; [congruence|rewrite lenN_cons; lia]. }
      unfold read_compressed, read_header. cbv zeta. rewrite Eh.
      rewrite (takeN_all p) by lia.
      destruct (decode_proper_prefix e h3 p l (wf_header_bytes _ _ _) H1 Hl) as [Hn|[a' [s [Ha [Hs Hsne]]]]].
      { rewrite Hn. exact I. }
      rewrite Ha.
      assert (La : lenN a' < 3 * hsize h).
      { rewrite <- Lh3, Hs, lenN_app. destruct s; [congruence|rewrite lenN_cons; lia]. }
      rewrite (takeN_all a') by lia.
      destruct (ints_of_prefix bo h _ a' s Bh3 Hs) as [Hn|[j [Hj [Hle Hlt]]]].
      { rewrite Hn. exact I. }
      rewrite Hj. specialize (Hlt Hsne). simpl in Hlt.
      destruct j as [|[|[|j]]]; try lia; cbn [firstn].
      + exact I.
      + rewrite (dropN_all p) by lia. cbn [takeN]. rewrite decode_nil. cbn [takeN].
        unfold ints_of, words, splitN. simpl. exact I.
      + rewrite (dropN_all p) by lia. cbn [takeN]. rewrite decode_nil. cbn [takeN].
        unfold ints_of, words, splitN. cbn [length split_fuel option_map map app skipn sumN].
        rewrite (dropN_all p) by lia. cbn [takeN]. rewrite decode_nil. apply Fin0.
    - (* B: the three-word header is complete *)
      subst p.
      assert (Hhdr : read_header bo h e (encode e h3 ++ q) =
                     match decode e (takeN (lenN (encode e hz)) q) with
                     | None => None
                     | Some d2 => match ints_of bo (hsize h) (takeN (lenN (encode e hz)) d2) with
                                  | None => None
                                  | Some sz => Some ([lenN cs; bs; lenN x mod bs] ++ sz, lenN (encode e h3) + lenN (encode e hz))
                                  end
                     end).
      { unfold read_header. cbv zeta. rewrite Eh.
        rewrite takeN_app_len. rewrite decode_encode by apply wf_header_bytes.
        rewrite (takeN_all h3) by lia. unfold h3 at 1. rewrite ints_of_header by exact Bh3.
        rewrite dropN_app_len. rewrite Ez. reflexivity. }
      unfold read_compressed. rewrite Hhdr. clear Hhdr.
      apply app_eq_app in Hqr. destruct Hqr as [l2 [[H1 H2]|[H1 H2]]].
      + (* q = E hz ++ l2 and E d = l2 ++ r : the cut is inside the data (B2) *)
        subst q. rewrite takeN_app_len. rewrite decode_encode by apply wf_header_bytes.
        rewrite (takeN_all hz) by (rewrite <- Ez, Lhz; apply encoded_bytes_ge).
        unfold hz at 1. rewrite ints_of_header by exact Bsz.
        cbn [app skipn]. rewrite Ssum.
        replace (encode e h3 ++ encode e hz ++ l2) with ((encode e h3 ++ encode e hz) ++ l2) by (rewrite <- app_assoc; reflexivity).
        rewrite (dropN_app_len' (encode e h3 ++ encode e hz)) by (rewrite lenN_app; reflexivity).
        assert (Ll2 : lenN l2 < lenN (encode e d)).
        { rewrite H2, lenN_app. destruct r; [congruence|rewrite lenN_cons; lia]. }
        rewrite (takeN_all l2) by (rewrite <- encoded_bytes_is_length; lia).
        destruct (decode_proper_prefix e d l2 r Wd H2 Hr) as [Hn|[dd [s [Hd [Hs Hsne]]]]].
        { rewrite Hn. exact I. }
        rewrite Hd. unfold uncompress_blocks. destruct (hbound h <=? sumN sizes); [exact I|].
        assert (Hb : blocks decompress bs sizes dd = None).
        { unfold sizes, cs. apply (blocks_truncated bl dd s Wbl Hsne). symmetry. exact Hs. }
        destruct sizes; [destruct empty_ok; simpl; auto|]. rewrite Hb. exact I.
      + (* E hz = q ++ l2 *)
        destruct l2 as [|c0 l2].
        * (* q is exactly the encoded size table and nothing of the data is left *)
          rewrite app_nil_r in H1. subst q. cbn [app] in H2.
          rewrite takeN_len_self. rewrite decode_encode by apply wf_header_bytes.
          rewrite (takeN_all hz) by (rewrite <- Ez, Lhz; apply encoded_bytes_ge).
          unfold hz at 1. rewrite ints_of_header by exact Bsz.
          cbn [app skipn]. rewrite Ssum.
          rewrite dropN_all by (rewrite lenN_app; lia). cbn [takeN]. rewrite decode_nil.
          unfold uncompress_blocks. destruct (hbound h <=? sumN sizes); [exact I|].
          assert (Hb : blocks decompress bs sizes [] = None).
          { assert (Hdne : d <> []).
            { intro C. rewrite C in H2. destruct e; simpl in H2; congruence. }
            unfold sizes, cs. apply (blocks_truncated bl [] d Wbl Hdne). reflexivity. }
          destruct sizes; [destruct empty_ok; simpl; auto|]. rewrite Hb. exact I.
        * (* the cut is inside the size table (B1) *)
          assert (Hl2 : c0 :: l2 <> []) by discriminate.
          assert (Lq : lenN q < lenN (encode e hz)) by (rewrite H1, lenN_app, lenN_cons; lia).
          rewrite (takeN_all q) by lia.
          destruct (decode_proper_prefix e hz q (c0 :: l2) (wf_header_bytes _ _ _) H1 Hl2) as [Hn|[a' [s [Ha [Hs Hsne]]]]].
          { rewrite Hn. exact I. }
          rewrite Ha.
          assert (La : lenN a' <= lenN (encode e hz)).
          { pose proof (encoded_bytes_ge e (lenN hz)) as G. rewrite <- encoded_bytes_is_length in G.
            assert (lenN hz = lenN a' + lenN s) by (rewrite Hs at 1; apply lenN_app). lia. }
          rewrite (takeN_all a') by exact La.
          destruct (ints_of_prefix bo h sizes a' s Bsz Hs) as [Hn|[j [Hj [Hle Hlt]]]].
          { rewrite Hn. exact I. }
          rewrite Hj. cbn [app skipn].
          rewrite dropN_all by (rewrite lenN_app; lia). cbn [takeN]. rewrite decode_nil.
          unfold uncompress_blocks. destruct (hbound h <=? sumN (firstn j sizes)); [exact I|].
          destruct (firstn j sizes) as [|c1 rest]; [destruct empty_ok; simpl; auto|].
          cbn [blocks takeN]. rewrite decompress_rejects_empty. exact I.
  Qed.
End TruncatedCompressed.

(* ------------------------------------------------------------------------------------------------ *)
(* tables: structure of the written csv file                                                          *)
(* ------------------------------------------------------------------------------------------------ *)
Definition clean (f : bytes) : Prop := f <> [] /\ ~ In comma f /\ ~ In newline f.

Lemma split_go_app sep : forall f cur rest, ~ In sep f ->
  split_go sep cur (f ++ rest) = split_go sep (rev f ++ cur) rest.
Proof.
  induction f as [|c f IH]; intros cur rest H; [reflexivity|].
  cbn [app split_go]. destruct (N.eqb_spec c sep) as [E|E]; [exfalso; apply H; left; exact E|].
  rewrite IH by (intro C; apply H; right; exact C). cbn [rev]. rewrite <- app_assoc. reflexivity.
Qed.

Lemma split_join sep : forall fs, fs <> [] -> Forall (fun f => ~ In sep f) fs -> split sep (join sep fs) = fs.
Proof.
  unfold split. induction fs as [|f fs IH]; intros Hne Hall; [congruence|].
  apply Forall_cons_iff in Hall. destruct Hall as [Hf Hfs].
  destruct fs as [|g fs].
  - cbn [join]. rewrite <- (app_nil_r f) at 1. rewrite split_go_app by exact Hf.
    cbn [split_go]. rewrite app_nil_r, rev_involutive. reflexivity.
  - change (join sep (f :: g :: fs)) with (f ++ sep :: join sep (g :: fs)).
    rewrite split_go_app by exact Hf. cbn [split_go]. rewrite N.eqb_refl.
    rewrite app_nil_r, rev_involutive. f_equal. apply IH; [discriminate|exact Hfs].
Qed.

Lemma join_no_newline : forall line, Forall clean line -> ~ In newline (join comma line).
Proof.
  induction line as [|f line IH]; intros H; [simpl; tauto|].
  apply Forall_cons_iff in H. destruct H as [[_ [_ Hn]] Hl].
  destruct line as [|g line]; [exact Hn|].
  change (join comma (f :: g :: line)) with (f ++ comma :: join comma (g :: line)).
  intro C. apply in_app_or in C. destruct C as [C|[C|C]]; [exact (Hn C)|discriminate C|exact (IH Hl C)].
Qed.

Lemma join_nonempty : forall line, line <> [] -> Forall clean line -> join comma line <> [].
Proof.
  intros [|f line] Hne H; [congruence|]. apply Forall_cons_iff in H. destruct H as [[Hf _] _].
  destruct line; cbn [join]; [exact Hf|]. destruct f; [congruence|discriminate].
Qed.

(* lines of the written file: every line, then one empty string after the final newline *)
Lemma split_lines : forall lines, Forall (fun l => ~ In newline l) lines ->
  split newline (concat (map (fun l => l ++ [newline]) lines)) = lines ++ [[]].
Proof.
  unfold split. induction lines as [|l lines IH]; intros H; [reflexivity|].
  apply Forall_cons_iff in H. destruct H as [Hl Hls].
  cbn [map concat]. rewrite <- app_assoc. rewrite split_go_app by exact Hl. cbn [app split_go]. rewrite N.eqb_refl.
  rewrite app_nil_r, rev_involutive. cbn [app]. f_equal. apply IH. exact Hls.
Qed.

Lemma filter_nonempty_lines lines : Forall (fun r => r <> [] /\ Forall clean r) lines ->
  filter nonempty (map (join comma) lines) = map (join comma) lines.
Proof.
  intros Hall. induction Hall as [|line lines [H1 H2] Hrest IH]; [reflexivity|]. cbn [map filter].
  destruct (join comma line) eqn:E; [exfalso; exact (join_nonempty line H1 H2 E)|]. cbn [nonempty]. rewrite IH. reflexivity.
Qed.

Lemma split_join_lines lines : Forall (fun r => r <> [] /\ Forall clean r) lines ->
  map (fun x => split comma (join comma x)) lines = lines.
Proof.
  intros Hall. induction Hall as [|line lines [H1 H2] Hrest IH]; [reflexivity|]. cbn [map]. rewrite IH. f_equal.
  apply split_join; [exact H1|]. apply Forall_forall. intros f Hf. rewrite Forall_forall in H2. apply (H2 f Hf).
Qed.

(* C13, tables: what _write_table writes is split by the reader into the same names and the same cells *)
Theorem csv_structure_roundtrip names rows :
  names <> [] -> Forall clean names -> Forall (fun r => r <> [] /\ Forall clean r) rows ->
  read_table (write_table names rows) = Some (names, rows).
Proof.
  intros Hn Hc Hr. unfold read_table, write_table.
  assert (Hall : Forall (fun r => r <> [] /\ Forall clean r) (names :: rows)) by (constructor; [split; assumption|exact Hr]).
  set (lines := names :: rows) in *.
  rewrite <- (map_map (join comma) (fun l => l ++ [newline])).
  rewrite split_lines.
  2:{ apply Forall_forall. intros l Hl. apply in_map_iff in Hl. destruct Hl as [line [<- Hin]].
      rewrite Forall_forall in Hall. apply join_no_newline. apply (Hall line Hin). }
  rewrite filter_app. cbn [filter nonempty]. rewrite app_nil_r.
  pose proof (filter_nonempty_lines lines Hall) as F. pose proof (split_join_lines lines Hall) as G.
  unfold bytes in *. rewrite F, map_map, G. reflexivity.
Qed.

(* the final line break of a table carries no data: with or without it the reader sees the same names and cells
   (C18: a table whose last line is not terminated is a complete file; C13: files of producers that separate lines) *)
Lemma split_go_final_sep sep : forall s cur, split_go sep cur (s ++ [sep]) = split_go sep cur s ++ [[]].
Proof.
  induction s as [|c r IH]; intros cur; cbn [app split_go].
  - rewrite N.eqb_refl. reflexivity.
  - destruct (c =? sep); [rewrite IH; reflexivity|apply IH].
Qed.

Theorem read_table_final_newline s : read_table (s ++ [newline]) = read_table s.
Proof.
  unfold read_table, split. rewrite split_go_final_sep, filter_app. cbn [filter nonempty]. rewrite app_nil_r. reflexivity.
Qed.

(* the table written by _write_table, with its final line break removed, reads back as the same table *)
Corollary csv_roundtrip_without_final_newline names rows :
  names <> [] -> Forall clean names -> Forall (fun r => r <> [] /\ Forall clean r) rows ->
  exists s, write_table names rows = s ++ [newline] /\ read_table s = Some (names, rows).
Proof.
  intros Hn Hc Hr.
  assert (E : exists s, write_table names rows = s ++ [newline]).
  { unfold write_table. cbn [map concat].
    induction rows as [|r rows IH] using rev_ind.
    - exists (join comma names). cbn [map concat]. rewrite app_nil_r. reflexivity.
    - exists (join comma names ++ [newline] ++ concat (map (fun line => join comma line ++ [newline]) rows) ++ join comma r).
      rewrite map_app, concat_app. cbn [map concat]. rewrite app_nil_r, <- !app_assoc. reflexivity. }
  destruct E as [s E]. exists s. split; [exact E|].
  rewrite <- read_table_final_newline, <- E. apply csv_structure_roundtrip; assumption.
Qed.

(* ------------------------------------------------------------------------------------------------ *)
(* C18, tables: a table file cut anywhere before the end of its data is never read as the same table  *)
(* ------------------------------------------------------------------------------------------------ *)
Lemma join_split_go sep : forall s cur, join sep (split_go sep cur s) = rev cur ++ s.
Proof.
  induction s as [|c r IH]; intros cur; cbn [split_go].
  - cbn [join]. rewrite app_nil_r. reflexivity.
  - destruct (c =? sep) eqn:E.
    + apply N.eqb_eq in E. subst c. cbn [join]. specialize (IH []).
      destruct (split_go sep [] r) as [|x xs] eqn:S.
      * destruct r; cbn [split_go] in S; [discriminate|destruct (n =? sep); discriminate].
      * rewrite IH. reflexivity.
    + rewrite IH. cbn [rev]. rewrite <- app_assoc. reflexivity.
Qed.
Lemma join_split sep s : join sep (split sep s) = s.
Proof. unfold split. rewrite join_split_go. reflexivity. Qed.

Fixpoint lensum (l : list bytes) : nat := match l with [] => 0%nat | x :: r => (length x + lensum r)%nat end.
Fixpoint cnt (sep : N) (s : bytes) : nat :=
  match s with [] => 0%nat | c :: r => if c =? sep then cnt sep r else S (cnt sep r) end.

Lemma lensum_split_go sep : forall s cur, lensum (split_go sep cur s) = (length cur + cnt sep s)%nat.
Proof.
  induction s as [|c r IH]; intros cur; cbn [split_go cnt].
  - cbn [lensum]. rewrite rev_length. lia.
  - destruct (c =? sep); [cbn [lensum]; rewrite IH, rev_length; cbn [length]; lia|rewrite IH; cbn [length]; lia].
Qed.
Lemma lensum_filter_nonempty l : lensum (filter nonempty l) = lensum l.
Proof. induction l as [|x l IH]; [reflexivity|]. destruct x; cbn [filter nonempty lensum length]; lia. Qed.
Lemma cnt_app sep a b : cnt sep (a ++ b) = (cnt sep a + cnt sep b)%nat.
Proof. induction a as [|c a IH]; [reflexivity|]. cbn [app cnt]. destruct (c =? sep); lia. Qed.
Lemma cnt_zero sep s : cnt sep s = 0%nat -> Forall (fun c => c = sep) s.
Proof.
  induction s as [|c r IH]; intros H; [constructor|]. cbn [cnt] in H. destruct (N.eqb_spec c sep) as [E|E]; [|discriminate].
  constructor; [exact E|apply IH; exact H].
Qed.

(* the text of a written table, without its final line break, ends in a byte of its last line *)
Lemma written_table_tail names rows : exists pre line, In line (names :: rows) /\
  write_table names rows = (pre ++ join comma line) ++ [newline].
Proof.
  unfold write_table. induction rows as [|r rows _] using rev_ind.
  - exists [], names. split; [left; reflexivity|]. cbn [map concat app]. rewrite app_nil_r. reflexivity.
  - exists (concat (map (fun line => join comma line ++ [newline]) (names :: rows))), r. split.
    + right. apply in_or_app. right. left. reflexivity.
    + change (names :: rows ++ [r]) with ((names :: rows) ++ [r]). rewrite map_app, concat_app. cbn [map concat].
      rewrite app_nil_r, app_assoc. reflexivity.
Qed.

Theorem csv_truncated_differs names rows s p :
  names <> [] -> Forall clean names -> Forall (fun r => r <> [] /\ Forall clean r) rows ->
  write_table names rows = s ++ [newline] -> proper_prefix p s ->
  read_table p <> Some (names, rows).
Proof.
  intros Hn Hc Hr Hs [r [Hrne Hsp]] Hp.
  assert (Hfull : read_table s = Some (names, rows)).
  { rewrite <- read_table_final_newline, <- Hs. apply csv_structure_roundtrip; assumption. }
  (* the non-empty lines of p and of s are the same *)
  assert (L : filter nonempty (split newline p) = filter nonempty (split newline s)).
  { unfold read_table in Hp, Hfull.
    destruct (map (split comma) (filter nonempty (split newline p))) as [|n1 r1] eqn:E1; [discriminate|].
    destruct (map (split comma) (filter nonempty (split newline s))) as [|n2 r2] eqn:E2; [discriminate|].
    assert (E : map (split comma) (filter nonempty (split newline p)) = map (split comma) (filter nonempty (split newline s))).
    { rewrite E1, E2. inversion Hp; inversion Hfull; subst. reflexivity. }
    apply (f_equal (map (join comma))) in E. rewrite !map_map in E.
    rewrite (map_ext _ (fun x => x)) in E by (intros; apply join_split).
    rewrite (map_ext (fun x => join comma (split comma x)) (fun x => x)) in E by (intros; apply join_split).
    rewrite !map_id in E. exact E. }
  apply (f_equal lensum) in L. rewrite !lensum_filter_nonempty in L. unfold split in L.
  rewrite !lensum_split_go in L. cbn [length] in L. rewrite Hsp, cnt_app in L.
  assert (Z : cnt newline r = 0%nat) by lia. apply cnt_zero in Z.
  (* but s ends in a byte of its last line, which is no line break *)
  destruct (written_table_tail names rows) as [pre [line [Hin Hw]]].
  rewrite Hs in Hw. apply app_inj_tail in Hw. destruct Hw as [Hw _].
  assert (Hline : line <> [] /\ Forall clean line).
  { destruct Hin as [<-|Hin]; [split; assumption|]. rewrite Forall_forall in Hr. apply Hr. exact Hin. }
  destruct Hline as [H1 H2].
  pose proof (join_nonempty line H1 H2) as Jne. pose proof (join_no_newline line H2) as Jnl.
  destruct (exists_last Jne) as [j' [c Ej]].
  destruct (exists_last Hrne) as [r' [c' Er]].
  rewrite Hsp, Er, Ej, !app_assoc in Hw. apply app_inj_tail in Hw. destruct Hw as [_ Ecc].
  rewrite Er in Z. apply Forall_app in Z. destruct Z as [_ Z]. inversion Z as [|? ? Zc _]; subst.
  apply Jnl. rewrite Ej. apply in_or_app. right. left. reflexivity.
Qed.
