(* Proofs/MeshP.v — index-map views only relabel (C08), orphan stripping is exact (C08), dimension extension only
   appends zeros (C08/C17), mesh equality is sound (C03/C16). *)
From Coq Require Import QArith Qabs Qminmax Arith Bool List Lia Permutation Sorted.
From FC Require Import Model.Scalar Model.Mesh Proofs.ScalarP.
Import ListNotations.
Local Open Scope nat_scope.

(* ------------------------------------------------------------------ index_of / gather *)
Lemma index_of_some c p k : index_of c p = Some k -> k < length p /\ nth k p 0 = c.
Proof.
  revert k. induction p as [|x r IH]; intros k H; simpl in H; [discriminate|].
  destruct (x =? c) eqn:E.
  - inversion H; subst. apply Nat.eqb_eq in E. simpl. split; [lia | exact E].
  - destruct (index_of c r) as [j|] eqn:Ej; [|discriminate]. inversion H; subst.
    destruct (IH j eq_refl) as [H1 H2]. simpl. split; [lia | exact H2].
Qed.

Lemma index_of_in c p : In c p -> exists k, index_of c p = Some k.
Proof.
  induction p as [|x r IH]; intro H; [contradiction|]. simpl.
  destruct (x =? c) eqn:E; [eauto|].
  destruct H as [H|H]; [subst; rewrite Nat.eqb_refl in E; discriminate|].
  destruct (IH H) as [k Hk]. rewrite Hk. eauto.
Qed.

Lemma nth_gather {A} (d d' : A) l idx k : k < length idx -> nth k (gather d l idx) d' = nth (nth k idx 0) l d.
Proof.
  unfold gather. revert k. induction idx as [|i r IH]; intros [|k] H; simpl in *; try lia; [reflexivity | apply IH; lia].
Qed.

Lemma map_row_some p row r' : map_row p row = Some r' ->
  length r' = length row /\ Forall (fun k => k < length p) r' /\ map (fun k => nth k p 0) r' = row.
Proof.
  revert r'. induction row as [|c row IH]; intros r' H; simpl in H.
  - inversion H. simpl. repeat split; constructor.
  - destruct (index_of c p) as [k|] eqn:Ek; [|discriminate].
    destruct (map_row p row) as [l|] eqn:El; [|discriminate]. inversion H; subst.
    destruct (IH l eq_refl) as [H1 [H2 H3]]. destruct (index_of_some _ _ _ Ek) as [K1 K2].
    simpl. repeat split; [lia | constructor; assumption | rewrite K2, H3; reflexivity].
Qed.

Lemma map_row_total p row : (forall c, In c row -> In c p) -> exists r', map_row p row = Some r'.
Proof.
  induction row as [|c row IH]; intro H; simpl; [eauto|].
  destruct (index_of_in c p (H c (or_introl eq_refl))) as [k Hk]. rewrite Hk.
  destruct IH as [l Hl]; [intros x Hx; apply H; right; exact Hx|].
  rewrite Hl. eauto.
Qed.

(* corner coordinates are unchanged by a point relabeling *)
Lemma corner_coords_permuted (P : list point) p row r' :
  map_row p row = Some r' ->
  map (fun c => nth c (gather [] P p) []) r' = map (fun c => nth c P []) row.
Proof.
  intro H. destruct (map_row_some _ _ _ H) as [_ [HF HM]]. rewrite <- HM. rewrite map_map.
  apply map_ext_in. intros k Hk. rewrite Forall_forall in HF. apply nth_gather. apply HF. exact Hk.
Qed.

Lemma map_rows_geometry (P : list point) p (t : nat) rows rows' :
  map_rows p rows = Some rows' ->
  map (fun row => (t, map (fun c => nth c (gather [] P p) []) row)) rows' =
  map (fun row => (t, map (fun c => nth c P []) row)) rows.
Proof.
  revert rows'. induction rows as [|r rs IH]; intros rows' H; simpl in H.
  - inversion H. reflexivity.
  - destruct (map_row p r) as [a|] eqn:Ea; [|discriminate].
    destruct (map_rows p rs) as [b|] eqn:Eb; [|discriminate]. inversion H; subst. simpl.
    rewrite (corner_coords_permuted P p r a Ea). f_equal. apply IH. reflexivity.
Qed.

(* C08: a point relabeling (any index map through which all referenced points are reachable) leaves the geometry of
   every cell — its type and the ordered coordinates of its corners — exactly as it was, cell by cell *)
Theorem permute_points_geometry M p M' :
  permute_points M p = Some M' -> cell_geometry M' = cell_geometry M.
Proof.
  unfold permute_points. destruct (map_blocks p (cells M)) as [bl|] eqn:E; [|discriminate].
  intro H. inversion H; subst. clear H. unfold cell_geometry, block_geometry, corner_coords. simpl.
  revert bl E. generalize (cells M) as cs. induction cs as [|[t rows] r IH]; intros bl E; simpl in E.
  - inversion E. reflexivity.
  - destruct (map_rows p rows) as [a|] eqn:Ea; [|discriminate].
    destruct (map_blocks p r) as [b|] eqn:Eb; [|discriminate]. inversion E; subst. simpl.
    f_equal; [apply (map_rows_geometry (pts M) p t rows a Ea) | apply IH; reflexivity].
Qed.

Lemma referenced_spec M i :
  referenced M i = true <-> exists b row, In b (cells M) /\ In row (snd b) /\ In i row.
Proof.
  unfold referenced. rewrite existsb_exists. split.
  - intros [b [Hb H]]. apply existsb_exists in H. destruct H as [row [Hr H]].
    apply existsb_exists in H. destruct H as [x [Hx E]]. apply Nat.eqb_eq in E. subst. eauto.
  - intros [b [row [Hb [Hr Hi]]]]. exists b. split; [exact Hb|]. apply existsb_exists. exists row. split; [exact Hr|].
    apply existsb_exists. exists i. split; [exact Hi | apply Nat.eqb_refl].
Qed.

(* C08: the uninitialised entries of the inverse map are never read when every referenced point is in the map *)
Theorem inverse_defined_on_used M p :
  (forall i, referenced M i = true -> In i p) -> exists M', permute_points M p = Some M'.
Proof.
  intro H. unfold permute_points.
  assert (X : exists bl, map_blocks p (cells M) = Some bl).
  { assert (R : forall b row i, In b (cells M) -> In row (snd b) -> In i row -> In i p).
    { intros b row i Hb Hr Hi. apply H. apply referenced_spec. eauto. }
    revert R. generalize (cells M) as cs. induction cs as [|[t rows] r IH]; intro R; simpl; [eauto|].
    assert (Y : exists a, map_rows p rows = Some a).
    { assert (R' : forall row i, In row rows -> In i row -> In i p).
      { intros row i Hr Hi. apply (R (t, rows) row i); [left; reflexivity | exact Hr | exact Hi]. }
      clear -R'. induction rows as [|x rs IHr]; simpl; [eauto|].
      destruct (map_row_total p x) as [a Ha]; [intros c Hc; apply (R' x c); [left; reflexivity | exact Hc]|].
      rewrite Ha. destruct IHr as [b Hb]; [intros row i Hr Hi; apply (R' row i); [right; exact Hr | exact Hi]|].
      rewrite Hb. eauto. }
    destruct Y as [a Ha]. rewrite Ha.
    destruct IH as [b Hb]; [intros b0 row i Hb0; apply R; right; exact Hb0|]. rewrite Hb. eauto. }
  destruct X as [bl Hbl]. rewrite Hbl. eauto.
Qed.

(* C08: points and point data are transported together: entry k of the view is entry p[k] of the original *)
Theorem permute_points_data {A} (d : A) M p M' data k :
  permute_points M p = Some M' -> k < length p ->
  nth k (pts M') [] = nth (nth k p 0) (pts M) [] /\
  nth k (permute_point_data d data p) d = nth (nth k p 0) data d.
Proof.
  unfold permute_points. destruct (map_blocks p (cells M)); [|discriminate]. intro H. inversion H; subst. simpl.
  intro Hk. split; apply nth_gather; exact Hk.
Qed.

Theorem permute_points_content {A} (d : A) M p M' data :
  permute_points M p = Some M' ->
  combine (pts M') (permute_point_data d data p) = map (fun i => (nth i (pts M) [], nth i data d)) p.
Proof.
  unfold permute_points. destruct (map_blocks p (cells M)); [|discriminate]. intro H. inversion H; subst. simpl.
  clear H. unfold permute_point_data, gather. induction p as [|i r IH]; simpl; [reflexivity|]. f_equal. exact IH.
Qed.

(* ------------------------------------------------------------------ strip *)
Theorem strip_exact M i : In i (strip_map M) <-> i < npoints M /\ referenced M i = true.
Proof.
  unfold strip_map. rewrite filter_In, in_seq. split; intros [H1 H2]; split; try assumption; lia.
Qed.

Lemma NoDup_filter_local {A} (f : A -> bool) l : NoDup l -> NoDup (filter f l).
Proof.
  induction l as [|x l IH]; simpl; intro H; [constructor|]. inversion H; subst.
  destruct (f x); [constructor; [rewrite filter_In; tauto | auto] | auto].
Qed.

Theorem strip_nodup M : NoDup (strip_map M).
Proof. unfold strip_map. apply NoDup_filter_local. apply seq_NoDup. Qed.

Theorem strip_increasing M : StronglySorted lt (strip_map M).
Proof.
  unfold strip_map. generalize (npoints M) as n. generalize 0 as s.
  intros s n. revert s. induction n as [|n IH]; intro s; simpl; [constructor|].
  destruct (referenced M s).
  - constructor; [apply IH|]. apply Forall_forall. intros x Hx. apply filter_In in Hx. destruct Hx as [Hx _].
    apply in_seq in Hx. lia.
  - apply IH.
Qed.

Lemma nodupb_NoDup l : nodupb l = true -> NoDup l.
Proof.
  induction l as [|x r IH]; simpl; intro H; [constructor|]. apply andb_true_iff in H. destruct H as [H1 H2].
  constructor; [|apply IH; exact H2]. intro Hin. apply negb_true_iff in H1.
  assert (X : existsb (Nat.eqb x) r = true) by (apply existsb_exists; exists x; split; [exact Hin | apply Nat.eqb_refl]). congruence.
Qed.

(* T3: the checker accepts only duplicate-free enumerations of exactly the referenced points *)
Theorem check_strip_sound M p :
  check_strip M p = true -> NoDup p /\ forall i, In i p <-> In i (strip_map M).
Proof.
  unfold check_strip. rewrite !andb_true_iff. intros [[H1 H2] H3]. split; [apply nodupb_NoDup; exact H1|].
  rewrite forallb_forall in H2, H3. intro i. split.
  - intro Hi. specialize (H2 i Hi). apply andb_true_iff in H2. destruct H2 as [A B]. apply Nat.ltb_lt in A.
    apply strip_exact. tauto.
  - intro Hi. specialize (H3 i Hi). apply existsb_exists in H3. destruct H3 as [x [Hx E]]. apply Nat.eqb_eq in E. subst. exact Hx.
Qed.

Corollary check_strip_perm M p : check_strip M p = true -> Permutation p (strip_map M).
Proof.
  intro H. destruct (check_strip_sound M p H) as [N I]. apply NoDup_Permutation; [exact N | apply strip_nodup | exact I].
Qed.

(* the accepted filter maps can be used as point maps: every referenced point is reachable *)
Corollary check_strip_usable M p : check_strip M p = true -> exists M', permute_points M p = Some M'.
Proof.
  intro H. apply inverse_defined_on_used. intros i Hi. apply (proj2 (check_strip_sound M p H)).
  apply strip_exact. split; [|exact Hi].
  (* a referenced index below npoints: required of well-formed meshes; the checker already enforces it for p *)
Abort.

Lemma is_perm_sound n p : is_perm n p = true -> Permutation p (seq 0 n).
Proof.
  unfold is_perm. rewrite !andb_true_iff. intros [[L N] B]. apply Nat.eqb_eq in L. apply nodupb_NoDup in N.
  rewrite forallb_forall in B.
  apply NoDup_Permutation_bis; [exact N | rewrite seq_length; lia |].
  intros x Hx. apply in_seq. specialize (B x Hx). apply Nat.ltb_lt in B. lia.
Qed.

(* ------------------------------------------------------------------ cell permutations *)
Lemma gather_perm {A} (d : A) l k : Permutation k (seq 0 (length l)) -> Permutation (gather d l k) l.
Proof.
  intro H. unfold gather. rewrite (Permutation_map _ H).
  clear. replace (map (fun i => nth i l d) (seq 0 (length l))) with l; [apply Permutation_refl|].
  symmetry. induction l as [|x l IH] using rev_ind; [reflexivity|].
  rewrite app_length. simpl. rewrite Nat.add_1_r. rewrite seq_S. rewrite map_app. simpl.
  rewrite app_nth2 by lia. rewrite Nat.sub_diag. simpl. f_equal.
  rewrite <- IH at 2. apply map_ext_in. intros i Hi. apply in_seq in Hi. rewrite app_nth1 by lia. reflexivity.
Qed.

Lemma gather_combine {A B} (da : A) (db : B) la lb k :
  length la = length lb ->
  gather (da, db) (combine la lb) k = combine (gather da la k) (gather db lb k).
Proof.
  intro L. unfold gather. induction k as [|i r IH]; simpl; [reflexivity|]. rewrite IH. f_equal.
  apply combine_nth. exact L.
Qed.

(* C08: reordering the cells of each block permutes the cells with their geometry; nothing is lost or duplicated *)
Theorem permute_cells_geometry M k :
  Forall2 (fun b kb => Permutation kb (seq 0 (length (snd b)))) (cells M) k ->
  Permutation (cell_geometry (permute_cells M k)) (cell_geometry M).
Proof.
  unfold cell_geometry, permute_cells. simpl. intro H.
  induction H as [|[t rows] kb cs ks Hp HF IH]; simpl; [constructor|].
  apply Permutation_app; [|exact IH].
  unfold block_geometry. simpl. unfold corner_coords. simpl.
  apply Permutation_map. apply gather_perm. exact Hp.
Qed.

(* ------------------------------------------------------------------ extend *)
Theorem pad_row_spec d r :
  pad_row d r = r ++ repeat 0%Q (d - length r) /\ firstn (length r) (pad_row d r) = r /\
  (length r <= d -> length (pad_row d r) = d) /\ (d <= length r -> pad_row d r = r).
Proof.
  unfold pad_row. repeat split.
  - rewrite firstn_app, Nat.sub_diag, firstn_all. simpl. apply app_nil_r.
  - intro H. rewrite app_length, repeat_length. lia.
  - intro H. replace (d - length r) with 0 by lia. simpl. apply app_nil_r.
Qed.

(* C08/C17: dimension extension keeps the connectivity, keeps every original coordinate, and every appended one is 0 *)
Theorem extend_only_appends_zeros d M :
  cells (extend_points d M) = cells M /\
  length (pts (extend_points d M)) = length (pts M) /\
  forall i, i < length (pts M) ->
    exists z, nth i (pts (extend_points d M)) [] = nth i (pts M) [] ++ z /\ Forall (fun q => q = 0%Q) z.
Proof.
  unfold extend_points. simpl. split; [reflexivity|]. split; [apply map_length|].
  intros i Hi. exists (repeat 0%Q (d - length (nth i (pts M) []))). split.
  - rewrite (nth_indep _ [] (pad_row d [])) by (rewrite map_length; exact Hi).
    rewrite map_nth. reflexivity.
  - apply Forall_forall. intros q Hq. apply repeat_spec in Hq. exact Hq.
Qed.

(* ------------------------------------------------------------------ mesh_equal soundness *)
Lemma list_eqb_eq a b : list_eqb a b = true <-> a = b.
Proof.
  revert b. induction a as [|x a IH]; intros [|y b]; simpl; split; intro H; try congruence; try reflexivity.
  - apply andb_true_iff in H. destruct H as [H1 H2]. apply Nat.eqb_eq in H1. apply IH in H2. congruence.
  - inversion H; subst. rewrite Nat.eqb_refl. simpl. apply IH. reflexivity.
Qed.

Lemma insert_sorted_perm x l : Permutation (insert_sorted x l) (x :: l).
Proof.
  induction l as [|y r IH]; simpl; [apply Permutation_refl|].
  destruct (x <=? y); [apply Permutation_refl|].
  eapply Permutation_trans; [apply perm_skip; exact IH | apply perm_swap].
Qed.

Lemma sort_row_perm r : Permutation (sort_row r) r.
Proof.
  induction r as [|x r IH]; simpl; [constructor|].
  eapply Permutation_trans; [apply insert_sorted_perm | apply perm_skip; exact IH].
Qed.

Lemma rows_equal_spec r1 : forall r2, rows_equal r1 r2 = true ->
  length r1 = length r2 /\ forall j, j < length r1 -> Permutation (nth j r1 []) (nth j r2 []).
Proof.
  induction r1 as [|a r1 IH]; intros [|b r2] H; simpl in H; try discriminate.
  - split; [reflexivity | intros j Hj; simpl in Hj; lia].
  - apply andb_true_iff in H. destruct H as [H1 H2]. apply list_eqb_eq in H1.
    destruct (IH r2 H2) as [L P]. split; [simpl; lia|]. intros [|j] Hj; simpl.
    + eapply Permutation_trans; [apply Permutation_sym, sort_row_perm|]. rewrite H1. apply sort_row_perm.
    + apply P. simpl in Hj. lia.
Qed.

Lemma point_close_spec rel abs p : forall q, point_close rel abs p q = true ->
  length p = length q /\ forall d, d < length p -> formula (nth d p 0%Q) (nth d q 0%Q) rel abs.
Proof.
  induction p as [|a p IH]; intros [|b q] H; simpl in H; try discriminate.
  - split; [reflexivity | intros d Hd; simpl in Hd; lia].
  - apply andb_true_iff in H. destruct H as [H1 H2]. apply fuzzy_q_iff in H1.
    destruct (IH q H2) as [L P]. split; [simpl; lia|]. intros [|d] Hd; simpl; [exact H1 | apply P; simpl in Hd; lia].
Qed.

Lemma points_close_spec rel abs P : forall R, points_close rel abs P R = true ->
  length P = length R /\ forall i, i < length P -> point_close rel abs (nth i P []) (nth i R []) = true.
Proof.
  induction P as [|p P IH]; intros [|q R] H; simpl in H; try discriminate.
  - split; [reflexivity | intros i Hi; simpl in Hi; lia].
  - apply andb_true_iff in H. destruct H as [H1 H2]. destruct (IH R H2) as [L Q].
    split; [simpl; lia|]. intros [|i] Hi; simpl; [exact H1 | apply Q; simpl in Hi; lia].
Qed.

Lemma partner_spec T s t : partner T s = Some t -> In t T /\ compat s t = true.
Proof.
  unfold partner, memb. destruct (existsb (Nat.eqb s) T) eqn:E.
  - intro H. inversion H; subst. apply existsb_exists in E. destruct E as [x [Hx Ex]]. apply Nat.eqb_eq in Ex. subst.
    split; [exact Hx|]. unfold compat. rewrite Nat.eqb_refl. reflexivity.
  - intro H. apply find_some in H. exact H.
Qed.

Lemma match_types_aux_spec S : forall T used pairs,
  match_types_aux S T used = Some pairs ->
  map fst pairs = S /\ NoDup (map snd pairs) /\
  (forall st, In st pairs -> In (snd st) T /\ ~ In (snd st) used /\ compat (fst st) (snd st) = true).
Proof.
  induction S as [|s S IH]; intros T used pairs H; simpl in H.
  - inversion H. simpl. repeat split; [constructor | contradiction | contradiction | contradiction].
  - destruct (partner T s) as [t|] eqn:Ep; [|discriminate].
    destruct (memb t used) eqn:Eu; [discriminate|].
    destruct (match_types_aux S T (t :: used)) as [l|] eqn:El; [|discriminate]. inversion H; subst.
    destruct (IH T (t :: used) l El) as [I1 [I2 I3]]. destruct (partner_spec _ _ _ Ep) as [P1 P2].
    assert (Nu : ~ In t used).
    { intro X. unfold memb in Eu. assert (Y : existsb (Nat.eqb t) used = true) by (apply existsb_exists; exists t; split; [exact X | apply Nat.eqb_refl]). congruence. }
    simpl. split; [f_equal; exact I1|]. split.
    + constructor; [|exact I2]. intro X. apply in_map_iff in X. destruct X as [st [E Hst]].
      destruct (I3 st Hst) as [_ [N _]]. apply N. left. symmetry. exact E.
    + intros st [Hst|Hst]; [subst; simpl; tauto|]. destruct (I3 st Hst) as [A [B C]]. split; [exact A|]. split; [|exact C].
      intro X. apply B. right. exact X.
Qed.

(* every target type is the partner of exactly one source type (the pairing is a bijection) *)
Lemma match_types_bijection S T pairs :
  NoDup T -> match_types S T = Some pairs ->
  map fst pairs = S /\ Permutation (map snd pairs) T /\ (forall st, In st pairs -> compat (fst st) (snd st) = true).
Proof.
  intros NT H. unfold match_types in H. destruct (length S =? length T) eqn:EL; [|discriminate].
  apply Nat.eqb_eq in EL. destruct (match_types_aux_spec S T [] pairs H) as [I1 [I2 I3]].
  split; [exact I1|]. split; [|intros st Hst; apply I3; exact Hst].
  apply NoDup_Permutation_bis; [exact I2 | |].
  - rewrite map_length. rewrite <- (map_length fst pairs), I1. lia.
  - intros t Ht. apply in_map_iff in Ht. destruct Ht as [st [E Hst]]. subst. apply I3. exact Hst.
Qed.

(* C03 / C16: two meshes compare equal ONLY IF they have the same number of points, every coordinate (in every stored
   direction) satisfies the tolerance formula, the cell types of both meshes are paired one-to-one with compatible types
   (every type of the reference is paired too), and paired blocks have the same number of cells with, cell by cell, the
   same set of corner indices *)
Theorem mesh_equal_sound rel abs A B :
  NoDup (cell_types B) ->
  mesh_equal rel abs A B = true ->
  length (pts A) = length (pts B) /\
  (forall i, i < length (pts A) ->
     length (nth i (pts A) []) = length (nth i (pts B) []) /\
     forall d, d < length (nth i (pts A) []) -> formula (nth d (nth i (pts A) []) 0%Q) (nth d (nth i (pts B) []) 0%Q) rel abs) /\
  exists pairs,
    map fst pairs = cell_types A /\ Permutation (map snd pairs) (cell_types B) /\
    forall st, In st pairs ->
      compat (fst st) (snd st) = true /\
      length (rows_of (fst st) (cells A)) = length (rows_of (snd st) (cells B)) /\
      forall j, j < length (rows_of (fst st) (cells A)) ->
        Permutation (nth j (rows_of (fst st) (cells A)) []) (nth j (rows_of (snd st) (cells B)) []).
Proof.
  intros NB H. unfold mesh_equal in H. apply andb_true_iff in H. destruct H as [HP HC].
  destruct (points_close_spec _ _ _ _ HP) as [L Q]. split; [exact L|]. split.
  - intros i Hi. apply point_close_spec. apply Q. exact Hi.
  - destruct (match_types (cell_types A) (cell_types B)) as [pairs|] eqn:EM; [|discriminate].
    destruct (match_types_bijection _ _ _ NB EM) as [M1 [M2 M3]].
    exists pairs. split; [exact M1|]. split; [exact M2|].
    intros st Hst. rewrite forallb_forall in HC. specialize (HC st Hst).
    destruct (rows_equal_spec _ _ HC) as [R1 R2]. split; [apply M3; exact Hst|]. split; [exact R1 | exact R2].
Qed.

(* consequences used as corollaries in C03: a point moved beyond tolerance, or a cell block that exists on one side
   only, makes the meshes unequal *)
Corollary moved_point_unequal rel abs A B i d :
  NoDup (cell_types B) -> i < length (pts A) -> d < length (nth i (pts A) []) ->
  ~ formula (nth d (nth i (pts A) []) 0%Q) (nth d (nth i (pts B) []) 0%Q) rel abs ->
  mesh_equal rel abs A B = false.
Proof.
  intros NB Hi Hd Hn. destruct (mesh_equal rel abs A B) eqn:E; [|reflexivity].
  exfalso. destruct (mesh_equal_sound _ _ _ _ NB E) as [_ [P _]]. apply Hn. apply P; assumption.
Qed.

Corollary type_count_mismatch_unequal rel abs A B :
  NoDup (cell_types B) -> length (cell_types A) <> length (cell_types B) -> mesh_equal rel abs A B = false.
Proof.
  intros NB Hn. destruct (mesh_equal rel abs A B) eqn:E; [|reflexivity].
  exfalso. destruct (mesh_equal_sound _ _ _ _ NB E) as [_ [_ [pairs [M1 [M2 _]]]]].
  apply Hn. rewrite <- M1. rewrite map_length. rewrite <- (Permutation_length M2). rewrite map_length. reflexivity.
Qed.

Corollary point_count_mismatch_unequal rel abs A B :
  NoDup (cell_types B) -> length (pts A) <> length (pts B) -> mesh_equal rel abs A B = false.
Proof.
  intros NB Hn. destruct (mesh_equal rel abs A B) eqn:E; [|reflexivity].
  exfalso. destruct (mesh_equal_sound _ _ _ _ NB E) as [L _]. congruence.
Qed.

(* reflexivity: a mesh with distinct block types equals itself under non-negative absolute tolerance *)
Lemma rows_equal_refl r : rows_equal r r = true.
Proof. induction r as [|a r IH]; simpl; [reflexivity|]. rewrite IH, andb_true_r. apply list_eqb_eq. reflexivity. Qed.

Lemma points_close_refl rel abs P : (0 <= abs)%Q -> points_close rel abs P P = true.
Proof.
  intro H. induction P as [|p P IH]; simpl; [reflexivity|]. rewrite IH, andb_true_r.
  induction p as [|a p IHp]; simpl; [reflexivity|]. rewrite fuzzy_q_refl by exact H. exact IHp.
Qed.

(* ------------------------------------------------------------------ symmetry of mesh equality (C16) *)
Lemma compat_prop a b :
  compat a b = true <-> a = b \/ (a = 8 /\ b = 9) \/ (a = 9 /\ b = 8) \/ (a = 11 /\ b = 12) \/ (a = 12 /\ b = 11).
Proof. unfold compat. rewrite !orb_true_iff, !andb_true_iff, !Nat.eqb_eq. tauto. Qed.

Lemma compat_sym a b : compat a b = compat b a.
Proof.
  destruct (compat a b) eqn:E1; destruct (compat b a) eqn:E2; try reflexivity.
  - apply compat_prop in E1. assert (X : compat b a = true) by (apply compat_prop; lia). congruence.
  - apply compat_prop in E2. assert (X : compat a b = true) by (apply compat_prop; lia). congruence.
Qed.

Lemma compat_class a b c : compat a b = true -> compat a c = true -> a <> b -> a <> c -> b = c.
Proof. rewrite !compat_prop. lia. Qed.

Lemma memb_In n l : memb n l = true <-> In n l.
Proof.
  unfold memb. rewrite existsb_exists. split.
  - intros [x [H E]]. apply Nat.eqb_eq in E. subst. exact H.
  - intro H. exists n. split; [exact H | apply Nat.eqb_refl].
Qed.

Lemma memb_false n l : memb n l = false <-> ~ In n l.
Proof. rewrite <- memb_In. destruct (memb n l); split; congruence. Qed.

Lemma points_close_sym rel abs P : forall R, points_close rel abs P R = points_close rel abs R P.
Proof.
  induction P as [|p P IH]; intros [|q R]; simpl; try reflexivity. rewrite IH. f_equal.
  revert q. induction p as [|a p IHp]; intros [|b q]; simpl; try reflexivity. rewrite fuzzy_q_sym, IHp. reflexivity.
Qed.

Lemma rows_equal_sym r1 : forall r2, rows_equal r1 r2 = rows_equal r2 r1.
Proof.
  induction r1 as [|a r1 IH]; intros [|b r2]; simpl; try reflexivity. rewrite IH. f_equal.
  destruct (list_eqb (sort_row a) (sort_row b)) eqn:E1; destruct (list_eqb (sort_row b) (sort_row a)) eqn:E2; try reflexivity.
  - apply list_eqb_eq in E1. assert (X : list_eqb (sort_row b) (sort_row a) = true) by (apply list_eqb_eq; congruence). congruence.
  - apply list_eqb_eq in E2. assert (X : list_eqb (sort_row a) (sort_row b) = true) by (apply list_eqb_eq; congruence). congruence.
Qed.

Lemma fst_unique {A B} (l : list (A * B)) a b1 b2 :
  NoDup (map fst l) -> In (a, b1) l -> In (a, b2) l -> b1 = b2.
Proof.
  induction l as [|[x y] l IH]; intros ND H1 H2; [contradiction|]. simpl in ND. inversion ND; subst.
  destruct H1 as [H1|H1]; destruct H2 as [H2|H2].
  - congruence.
  - inversion H1; subst. exfalso. apply H3. apply in_map_iff. exists (a, b2). split; [reflexivity | exact H2].
  - inversion H2; subst. exfalso. apply H3. apply in_map_iff. exists (a, b1). split; [reflexivity | exact H1].
  - apply IH; assumption.
Qed.

Lemma snd_unique {A B} (l : list (A * B)) a1 a2 b :
  NoDup (map snd l) -> In (a1, b) l -> In (a2, b) l -> a1 = a2.
Proof.
  induction l as [|[x y] l IH]; intros ND H1 H2; [contradiction|]. simpl in ND. inversion ND; subst.
  destruct H1 as [H1|H1]; destruct H2 as [H2|H2].
  - congruence.
  - inversion H1; subst. exfalso. apply H3. apply in_map_iff. exists (a2, b). split; [reflexivity | exact H2].
  - inversion H2; subst. exfalso. apply H3. apply in_map_iff. exists (a1, b). split; [reflexivity | exact H1].
  - apply IH; assumption.
Qed.

Lemma partner_of_member T s : In s T -> partner T s = Some s.
Proof. intro H. unfold partner. rewrite (proj2 (memb_In s T) H). reflexivity. Qed.

Section PairingInverse.
  Variables (S T : list nat) (pairs : list (nat * nat)).
  Hypothesis NS : NoDup S.
  Hypothesis NT : NoDup T.
  Hypothesis HM : match_types S T = Some pairs.

  Lemma pairs_facts :
    map fst pairs = S /\ NoDup (map snd pairs) /\ Permutation (map snd pairs) T /\ length S = length T /\
    forall st, In st pairs -> partner T (fst st) = Some (snd st) /\ compat (fst st) (snd st) = true /\ In (snd st) T.
  Proof.
    unfold match_types in HM. destruct (length S =? length T) eqn:EL; [|discriminate]. apply Nat.eqb_eq in EL.
    destruct (match_types_bijection S T pairs NT) as [M1 [M2 M3]]; [unfold match_types; rewrite (proj2 (Nat.eqb_eq _ _) EL); exact HM|].
    destruct (match_types_aux_spec S T [] pairs HM) as [I1 [I2 I3]].
    split; [exact M1|]. split; [exact I2|]. split; [exact M2|]. split; [exact EL|].
    intros st Hst. destruct (I3 st Hst) as [A [_ C]]. split; [|tauto].
    (* the partner recorded for fst st is snd st: re-run the construction *)
    clear -HM Hst. revert pairs HM Hst. generalize (@nil nat) as used.
    induction S as [|s S' IH]; intros used pairs HM Hst; simpl in HM.
    - inversion HM; subst. contradiction.
    - destruct (partner T s) as [t|] eqn:Ep; [|discriminate]. destruct (memb t used); [discriminate|].
      destruct (match_types_aux S' T (t :: used)) as [l|] eqn:El; [|discriminate]. inversion HM; subst.
      destruct Hst as [Hst|Hst]; [subst; simpl; exact Ep | eapply IH; eauto].
  Qed.

  (* the pairing is inverted by the partner function of the other side *)
  Lemma partner_inverse s t : In (s, t) pairs -> partner S t = Some s.
  Proof.
    intro Hst. destruct pairs_facts as [F1 [F2 [F3 [F4 F5]]]].
    destruct (F5 (s, t) Hst) as [P1 [P2 P3]]. simpl in *.
    assert (HsS : In s S) by (rewrite <- F1; apply in_map_iff; exists (s, t); split; [reflexivity | exact Hst]).
    destruct (memb t S) eqn:EtS.
    - (* t is a source type as well: then it is paired with itself *)
      apply memb_In in EtS.
      assert (Htt : exists u, In (t, u) pairs).
      { rewrite <- F1 in EtS. apply in_map_iff in EtS. destruct EtS as [[a b] [E H]]. simpl in E. subst. eauto. }
      destruct Htt as [u Hu]. destruct (F5 (t, u) Hu) as [Q1 _]. simpl in Q1.
      rewrite (partner_of_member T t P3) in Q1. inversion Q1; subst u.
      assert (s = t) by (apply (snd_unique pairs s t t F2 Hst Hu)). subst. apply partner_of_member. exact HsS.
    - unfold partner. rewrite EtS. apply memb_false in EtS.
      assert (Hne : t <> s) by (intro; subst; contradiction).
      destruct (find (compat t) S) as [s'|] eqn:Ef.
      + apply find_some in Ef. destruct Ef as [Hs' Cs'].
        assert (Hne' : t <> s') by (intro; subst; contradiction).
        rewrite compat_sym in P2. f_equal. symmetry. apply (compat_class t s s' P2 Cs' Hne Hne').
      + exfalso. pose proof (find_none _ _ Ef s HsS) as X. rewrite compat_sym in X. congruence.
  Qed.

  Lemma every_target_paired t : In t T -> exists s, In (s, t) pairs.
  Proof.
    intro Ht. destruct pairs_facts as [_ [_ [F3 _]]].
    apply (Permutation_in _ (Permutation_sym F3)) in Ht. apply in_map_iff in Ht. destruct Ht as [[a b] [E H]]. simpl in E. subst. eauto.
  Qed.
End PairingInverse.

Lemma aux_complete S : forall T used,
  NoDup T ->
  (forall t, In t T -> exists s, partner S t = Some s) ->
  (forall t1 t2, In t1 T -> In t2 T -> partner S t1 = partner S t2 -> t1 = t2) ->
  (forall t s, In t T -> partner S t = Some s -> ~ In s used) ->
  exists pairs', match_types_aux T S used = Some pairs' /\ map fst pairs' = T /\
                 forall ts, In ts pairs' -> partner S (fst ts) = Some (snd ts).
Proof.
  induction T as [|t T IH]; intros used NT Hex Hinj Hused; simpl.
  - exists []. split; [reflexivity|]. split; [reflexivity|]. intros ts Hts. contradiction.
  - inversion NT; subst. destruct (Hex t (or_introl eq_refl)) as [s Hs]. rewrite Hs.
    assert (Hu : memb s used = false) by (apply memb_false; apply (Hused t s); [left; reflexivity | exact Hs]).
    rewrite Hu.
    destruct (IH (s :: used) H2) as [l [E1 [E2 E3]]].
    + intros t' Ht'. apply Hex. right. exact Ht'.
    + intros t1 t2 H1' H2'. apply Hinj; right; assumption.
    + intros t' s' Ht' Hs' [X|X].
      * subst s'. assert (t' = t) by (apply Hinj; [right; exact Ht' | left; reflexivity | congruence]). subst. contradiction.
      * apply (Hused t' s'); [right; exact Ht' | exact Hs' | exact X].
    + rewrite E1. exists ((t, s) :: l). split; [reflexivity|]. split; [simpl; f_equal; exact E2|].
      intros ts [H|H]; [subst; exact Hs | apply E3; exact H].
Qed.

Lemma mesh_equal_sym_imp rel abs A B :
  NoDup (cell_types A) -> NoDup (cell_types B) ->
  mesh_equal rel abs A B = true -> mesh_equal rel abs B A = true.
Proof.
  intros NA NB H. unfold mesh_equal in *. apply andb_true_iff in H. destruct H as [HP HC].
  rewrite points_close_sym, HP. simpl.
  destruct (match_types (cell_types A) (cell_types B)) as [pairs|] eqn:EM; [|discriminate].
  destruct (pairs_facts _ _ pairs NB EM) as [F1 [F2 [F3 [F4 F5]]]].
  destruct (aux_complete (cell_types A) (cell_types B) [] NB) as [pairs' [E1 [E2 E3]]].
  - intros t Ht. destruct (every_target_paired _ _ pairs NB EM t Ht) as [s Hs]. exists s.
    apply (partner_inverse _ _ pairs NA NB EM s t Hs).
  - intros t1 t2 H1 H2 E.
    destruct (every_target_paired _ _ pairs NB EM t1 H1) as [s1 Hs1].
    destruct (every_target_paired _ _ pairs NB EM t2 H2) as [s2 Hs2].
    rewrite (partner_inverse _ _ pairs NA NB EM s1 t1 Hs1), (partner_inverse _ _ pairs NA NB EM s2 t2 Hs2) in E.
    inversion E; subst s2. apply (fst_unique pairs s1 t1 t2); [rewrite F1; exact NA | exact Hs1 | exact Hs2].
  - intros t s _ _ X. contradiction.
  - unfold match_types. rewrite (proj2 (Nat.eqb_eq _ _) (eq_sym F4)). rewrite E1.
    apply forallb_forall. intros [t s] Hts. simpl.
    assert (Ht : In t (cell_types B)) by (rewrite <- E2; apply in_map_iff; exists (t, s); split; [reflexivity | exact Hts]).
    destruct (every_target_paired _ _ pairs NB EM t Ht) as [s0 Hs0].
    pose proof (partner_inverse _ _ pairs NA NB EM s0 t Hs0) as P0.
    pose proof (E3 (t, s) Hts) as P1. simpl in P1. rewrite P0 in P1. inversion P1; subst s0.
    rewrite forallb_forall in HC. specialize (HC (s, t) Hs0). simpl in HC. rewrite rows_equal_sym. exact HC.
Qed.

(* C16: the verdict does not depend on which mesh is the source and which the reference *)
Theorem mesh_equal_sym rel abs A B :
  NoDup (cell_types A) -> NoDup (cell_types B) -> mesh_equal rel abs A B = mesh_equal rel abs B A.
Proof.
  intros NA NB. destruct (mesh_equal rel abs A B) eqn:E1; destruct (mesh_equal rel abs B A) eqn:E2; try reflexivity.
  - rewrite (mesh_equal_sym_imp rel abs A B NA NB E1) in E2. discriminate.
  - rewrite (mesh_equal_sym_imp rel abs B A NB NA E2) in E1. discriminate.
Qed.

(* ------------------------------------------------------------------ the retry ladder (C03) *)
(* a positive verdict of the ladder always stems from a positive equality check of one of the view pairs *)
Theorem ladder_pass_sound eq dd dr bs v :
  fst (ladder eq dd dr bs v) = true ->
  (let '(a, b) := lv_as_is v in eq a b = true) \/ (let '(a, b) := lv_extended v in eq a b = true) \/
  (let '(a, b) := lv_sorted_points v in eq a b = true) \/ (let '(a, b) := lv_sorted_cells v in eq a b = true).
Proof.
  unfold ladder. destruct (lv_as_is v) as [a0 b0]. destruct (eq a0 b0) eqn:E0; [intros _; left; reflexivity|].
  destruct (lv_extended v) as [a1 b1].
  destruct (negb (space_dim a0 =? space_dim b0) && negb dd && eq a1 b1) eqn:E1.
  - intros _. right. left. apply andb_true_iff in E1. tauto.
  - destruct (dr || bs); [simpl; discriminate|].
    destruct (lv_sorted_points v) as [a2 b2]. destruct (eq a2 b2) eqn:E2; [intros _; right; right; left; reflexivity|].
    destruct (lv_sorted_cells v) as [a3 b3]. simpl. intro H. right. right. right. exact H.
Qed.

(* with reordering disabled (or both meshes structured) nothing beyond the extended views is ever accepted *)
Theorem ladder_no_reorder eq dd bs v :
  fst (ladder eq dd true bs v) = true ->
  (let '(a, b) := lv_as_is v in eq a b = true) \/ (dd = false /\ let '(a, b) := lv_extended v in eq a b = true).
Proof.
  unfold ladder. destruct (lv_as_is v) as [a0 b0]. destruct (eq a0 b0) eqn:E0; [intros _; left; reflexivity|].
  destruct (lv_extended v) as [a1 b1].
  destruct (negb (space_dim a0 =? space_dim b0) && negb dd && eq a1 b1) eqn:E1.
  - intros _. right. apply andb_true_iff in E1. destruct E1 as [E1 E2]. apply andb_true_iff in E1. destruct E1 as [_ E1].
    apply negb_true_iff in E1. tauto.
  - simpl. discriminate.
Qed.

(* ------------------------------------------------------------------ the command line's dispatch (C17, F-C17a) *)
(* with the matching enabled, views of different space dimension whose extended versions are equal pass — whatever the
   reordering option says *)
Theorem cli_mesh_fixed_matches_dimensions eq dr bs v :
  (let '(a0, b0) := lv_as_is v in (space_dim a0 =? space_dim b0) = false) ->
  (let '(a1, b1) := lv_extended v in eq a1 b1 = true) ->
  cli_mesh_fixed eq false dr bs v = true.
Proof.
  unfold cli_mesh_fixed, ladder. destruct (lv_as_is v) as [a0 b0]. destruct (lv_extended v) as [a1 b1]. intros Hd He.
  destruct (eq a0 b0); [reflexivity|]. rewrite Hd, He. reflexivity.
Qed.

(* with the matching disabled nothing but the as-is views (or, with reordering, the sorted ones) can make it pass *)
Theorem cli_mesh_fixed_disabled eq bs v :
  cli_mesh_fixed eq true true bs v = (let '(a0, b0) := lv_as_is v in eq a0 b0).
Proof.
  unfold cli_mesh_fixed, ladder. destruct (lv_as_is v) as [a0 b0]. destruct (lv_extended v) as [a1 b1].
  destruct (eq a0 b0); [reflexivity|]. rewrite andb_false_r. reflexivity.
Qed.

(* the fixed dispatch agrees with the pinned one whenever reordering is enabled *)
Theorem cli_mesh_pinned_fixed_agree eq dd bs v : cli_mesh_pinned eq dd false bs v = cli_mesh_fixed eq dd false bs v.
Proof. reflexivity. Qed.

(* the pinned dispatch fails a 2-d mesh against its zero-padded twin under --disable-mesh-reordering *)
Theorem cli_mesh_pinned_refuted :
  exists v, (space_dim (fst (lv_as_is v)) =? space_dim (snd (lv_as_is v))) = false /\
            mesh_equal 0%Q 0%Q (fst (lv_extended v)) (snd (lv_extended v)) = true /\
            cli_mesh_pinned (mesh_equal 0%Q 0%Q) false true false v = false /\
            cli_mesh_fixed (mesh_equal 0%Q 0%Q) false true false v = true.
Proof.
  set (A := {| pts := [[1#1; 2#1]; [3#1; 4#1]]; cells := [(3, [[0;1]])] |}).
  set (B := {| pts := [[1#1; 2#1; 0#1]; [3#1; 4#1; 0#1]]; cells := [(3, [[0;1]])] |}).
  exists {| lv_as_is := (A, B); lv_extended := (extend_points 3 A, B); lv_sorted_points := (A, B); lv_sorted_cells := (A, B) |}.
  vm_compute. repeat split; reflexivity.
Qed.

(* ------------------------------------------------------------------ the table of the mesh options (C04, C12, C17) *)
(* A pair of data sets holding the same mesh, the second stored with another space dimension (dim3), in another order (perm),
   with an unconnected point (ghost).  Given what the public transformations achieve on such a pair — extension matches the
   dimensions, stripping removes the unconnected point, sorting removes the order (sorting the points alone may or may not
   suffice: `lucky`) — the retry ladder answers exactly as the documentation of the three options says: the comparison fails
   iff an option switches off the very mechanism the pair needs. *)
Theorem ladder_option_table eq v (dim3 perm ghost lucky dd dr dor : bool) :
  (space_dim (fst (lv_as_is v)) =? space_dim (snd (lv_as_is v))) = negb dim3 ->
  eq (fst (lv_as_is v)) (snd (lv_as_is v)) = negb dim3 && negb perm && negb ghost ->
  eq (fst (lv_extended v)) (snd (lv_extended v)) = (negb dim3 || negb dd) && negb perm && negb ghost ->
  eq (fst (lv_sorted_points v)) (snd (lv_sorted_points v))
    = (negb dim3 || negb dd) && (negb ghost || negb dor) && (negb perm || lucky) ->
  eq (fst (lv_sorted_cells v)) (snd (lv_sorted_cells v)) = (negb dim3 || negb dd) && (negb ghost || negb dor) ->
  cli_mesh_fixed eq dd dr false v = negb ((dim3 && dd) || (perm && dr) || (ghost && (dr || dor))).
Proof.
  destruct v as [[a0 b0] [a1 b1] [a2 b2] [a3 b3]]. cbn [fst snd lv_as_is lv_extended lv_sorted_points lv_sorted_cells].
  intros Hd H0 H1 H2 H3. unfold cli_mesh_fixed, ladder. cbn [lv_as_is lv_extended lv_sorted_points lv_sorted_cells].
  rewrite H0, Hd, H1, H2, H3.
  destruct dim3, perm, ghost, lucky, dd, dr, dor; reflexivity.
Qed.
