(* Proofs/BridgeP.v — the meshio bridge in the other direction (to_meshio, mesh/meshio_utils.py:40-85) and the round trip
   through it (C07; finding F-C07c).  A mesh is the list of its (cell type, connectivity rows) blocks, distinct types. *)
From Coq Require Import Arith Bool List Lia.
From FC Require Import Model.Structured Proofs.StructuredP.
Import ListNotations.
Local Open Scope nat_scope.

(* meshio has no pixel / voxel: they become quads / hexahedra with the corners reordered *)
Definition meshio_type (t : nat) : nat := if t =? 8 then 9 else if t =? 11 then 12 else t.
Definition meshio_row (t : nat) (r : list nat) : list nat :=
  if t =? 8 then reorder quad_pixel_map r else if t =? 11 then reorder hex_voxel_map r else r.

(* repaired: one block per cell type of the mesh, in the mesh's order *)
Definition to_meshio_fixed (blocks : list (nat * list (list nat))) : list (nat * list (list nat)) :=
  map (fun b => (meshio_type (fst b), map (meshio_row (fst b)) (snd b))) blocks.
(* pinned: the blocks are collected in a dict keyed by the meshio type (a later block of the same meshio type replaces
   the earlier one, at the earlier one's position) *)
Definition to_meshio_pinned (blocks : list (nat * list (list nat))) : list (nat * list (list nat)) :=
  dict_of (to_meshio_fixed blocks).

(* no cell is lost on the way to meshio: every cell of every block is in a block of its meshio type *)
Theorem to_meshio_fixed_keeps_cells : forall blocks t rows r,
  In (t, rows) blocks -> In r rows ->
  exists rows', In (meshio_type t, rows') (to_meshio_fixed blocks) /\ In (meshio_row t r) rows'.
Proof.
  intros blocks t rows r Hb Hr. exists (map (meshio_row t) rows). split.
  - unfold to_meshio_fixed. apply in_map_iff. exists (t, rows). split; [reflexivity|exact Hb].
  - apply in_map. exact Hr.
Qed.

(* ... and none on the way back through the (repaired) from_meshio: under the meshio type of its block, every cell of the
   mesh is among the cells handed out, whatever the mix of cell types (quads next to pixels included) *)
Theorem bridge_round_trip_keeps_cells : forall (V : Type) blocks (data : list (list V)) t rows r,
  length data = length blocks -> In (t, rows) blocks -> In r rows ->
  exists res cells dat, from_meshio_fixed (to_meshio_fixed blocks) data = Some res /\
    In (meshio_type t, (cells, dat)) res /\ In (meshio_row t r) cells.
Proof.
  intros V blocks data t rows r Hl Hb Hr.
  assert (Hl' : length data = length (to_meshio_fixed blocks)) by (unfold to_meshio_fixed; rewrite map_length; exact Hl).
  destruct (from_meshio_fixed_blocks V (to_meshio_fixed blocks) data Hl') as [res [Hres Hin]].
  assert (Ht : In (meshio_type t) (map fst (to_meshio_fixed blocks))).
  { unfold to_meshio_fixed. rewrite map_map. cbn [fst]. apply in_map_iff. exists (t, rows). split; [reflexivity|exact Hb]. }
  specialize (Hin _ Ht). eexists res, _, _. split; [exact Hres|]. split; [exact Hin|].
  (* rows_of collects the rows of every block of that meshio type *)
  unfold rows_of. apply in_concat. exists (map (meshio_row t) rows). split; [|apply in_map; exact Hr].
  apply in_map_iff. exists (meshio_type t, map (meshio_row t) rows). split; [reflexivity|].
  apply filter_In. split.
  - unfold to_meshio_fixed. apply in_map_iff. exists (t, rows). split; [reflexivity|exact Hb].
  - cbn [fst]. apply Nat.eqb_refl.
Qed.

(* finding F-C07c: a quad block followed by a pixel block — the pinned conversion keeps only the (reordered) pixel cells *)
Theorem to_meshio_pinned_refuted :
  let blocks := [(9, [[0; 1; 2; 3]]); (8, [[1; 4; 2; 5]])] in
  to_meshio_pinned blocks = [(9, [[1; 4; 5; 2]])] /\
  to_meshio_fixed blocks = [(9, [[0; 1; 2; 3]]); (9, [[1; 4; 5; 2]])].
Proof. vm_compute. split; reflexivity. Qed.
