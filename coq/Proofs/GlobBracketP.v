(* Proofs/GlobBracketP.v — bracket expressions of the pattern language (Model/Glob.v): '[abc]' accepts exactly the listed
   characters, '[!abc]' exactly the others, '[a-c]' exactly the characters from a to c — each after any plain prefix
   (e.g. "velocity_[xyz]", "p[0-9]"). *)
From Coq Require Import NArith Arith List Bool Lia.
From FC Require Import Model.Glob Proofs.GlobP.
Import ListNotations.
Local Open Scope N_scope.

Lemma translate_go_nil f : translate_go f [] = [].
Proof. destruct f; reflexivity. Qed.

Lemma translate_plain_app l r : plain l = true -> translate (l ++ r) = map TLit l ++ translate r.
Proof.
  intros H. unfold translate. rewrite app_length, <- Nat.add_succ_r.
  rewrite (translate_go_plain l r (length l) H (Nat.le_refl _)). rewrite Nat.sub_diag. reflexivity.
Qed.

Lemma has_false_iff c s : has c s = false <-> ~ In c s.
Proof.
  unfold has. split.
  - intros H Hin. assert (E : existsb (N.eqb c) s = true) by (apply existsb_exists; exists c; split; [exact Hin|apply N.eqb_refl]).
    rewrite E in H. discriminate.
  - intros H. destruct (existsb (N.eqb c) s) eqn:E; [|reflexivity].
    apply existsb_exists in E. destruct E as [x [Hx E]]. apply N.eqb_eq in E. subst. contradiction.
Qed.

Lemma has_true_iff c s : has c s = true <-> In c s.
Proof.
  unfold has. rewrite existsb_exists. split.
  - intros [x [Hx E]]. apply N.eqb_eq in E. subst. exact Hx.
  - intros H. exists c. split; [exact H|apply N.eqb_refl].
Qed.

Lemma find_from_0 c : forall l r, ~ In c l -> find_from c (l ++ c :: r) 0 = Some (length l).
Proof.
  induction l as [|x l IH]; intros r H; cbn [app find_from length].
  - rewrite N.eqb_refl. reflexivity.
  - destruct (x =? c) eqn:E; [apply N.eqb_eq in E; subst; exfalso; apply H; left; reflexivity|].
    rewrite IH; [reflexivity|]. intros H'. apply H. right. exact H'.
Qed.

(* the closing bracket of '[' stuff ']' is found right after stuff *)
Lemma closing_plain x stuff : x <> c_bang -> x <> c_rb -> ~ In c_rb stuff ->
  closing ((x :: stuff) ++ [c_rb]) = Some (length (x :: stuff)).
Proof.
  intros Hb Hr Hn. unfold closing. cbn [app nth_error].
  apply N.eqb_neq in Hb, Hr. rewrite Hb. cbn [nth_error]. rewrite Hr.
  change (x :: stuff ++ [c_rb]) with ((x :: stuff) ++ c_rb :: []). apply find_from_0.
  intros [H|H]; [apply N.eqb_neq in Hr; contradiction|contradiction].
Qed.

Lemma closing_negated y stuff : y <> c_rb -> ~ In c_rb stuff ->
  closing ((c_bang :: y :: stuff) ++ [c_rb]) = Some (length (c_bang :: y :: stuff)).
Proof.
  intros Hr Hn. unfold closing. cbn [app nth_error]. rewrite N.eqb_refl. cbn [nth_error].
  apply N.eqb_neq in Hr. rewrite Hr. cbn [find_from]. rewrite Hr.
  rewrite (find_from_0 c_rb stuff [] Hn). reflexivity.
Qed.

Lemma translate_bracket stuff : closing (stuff ++ [c_rb]) = Some (length stuff) ->
  translate (c_lb :: stuff ++ [c_rb]) = [bracket stuff].
Proof.
  intros H. unfold translate. cbn [length translate_go].
  change (c_lb =? c_star) with false. change (c_lb =? c_qm) with false. change (c_lb =? c_lb) with true. cbn iota.
  rewrite H. rewrite firstn_app, firstn_all, Nat.sub_diag. cbn [firstn]. rewrite app_nil_r.
  replace (skipn (S (length stuff)) (stuff ++ [c_rb])) with (@nil N).
  - rewrite ?translate_go_nil. reflexivity.
  - symmetry. apply skipn_all2. rewrite app_length. cbn [length]. lia.
Qed.

(* ---- what a bracket denotes ----------------------------------------------------------------------------------- *)
Lemma bracket_plain x stuff : x <> c_bang -> has c_dash (x :: stuff) = false ->
  bracket (x :: stuff) = TSet false (x :: stuff) [].
Proof.
  intros Hb Hd. unfold bracket. cbv zeta. rewrite Hd. cbn [concat app].
  apply N.eqb_neq in Hb. destruct stuff as [|y stuff]; cbn [chunk_items]; rewrite Hb; reflexivity.
Qed.

Lemma bracket_negated y stuff : has c_dash (c_bang :: y :: stuff) = false ->
  bracket (c_bang :: y :: stuff) = TSet true (y :: stuff) [].
Proof.
  intros Hd. unfold bracket. cbv zeta. rewrite Hd. cbn [concat app chunk_items]. rewrite N.eqb_refl. reflexivity.
Qed.

Lemma bracket_range a c : a <> c_bang -> a <= c -> bracket [a; c_dash; c] = TSet false [] [(a, c)].
Proof.
  intros Hb Hle. unfold bracket. apply N.eqb_neq in Hb.
  assert (Hd : has c_dash [a; c_dash; c] = true) by (unfold has; cbn [existsb]; rewrite N.eqb_refl, orb_true_r; reflexivity).
  cbv zeta. rewrite Hd, Hb. cbn [length chunks_go find_from]. rewrite N.eqb_refl. cbn [option_map slice Nat.sub skipn firstn Nat.add].
  cbn [fix_last merge_chunks fold_right merge_step hd last removelast tl app].
  assert (E : (c <? a) = false) by (apply N.ltb_ge; exact Hle). rewrite E.
  cbn [concat app chunk_items removelast tl last hd]. rewrite Hb. reflexivity.
Qed.

Lemma tmatch_set neg sg rg s :
  tmatch [TSet neg sg rg] s = true <-> exists x, s = [x] /\ in_set neg sg rg x = true.
Proof.
  destruct s as [|x [|y s]]; cbn [tmatch].
  - split; [discriminate|]. intros [x [H _]]. discriminate.
  - rewrite andb_true_r. split.
    + intros H. exists x. split; [reflexivity|exact H].
    + intros [x' [E H]]. inversion E; subst. exact H.
  - rewrite andb_false_r. split; [discriminate|]. intros [x' [E _]]. discriminate.
Qed.

Lemma fnmatch_prefix_bracket l stuff s : plain l = true -> closing (stuff ++ [c_rb]) = Some (length stuff) ->
  fnmatch s (l ++ c_lb :: stuff ++ [c_rb]) = tmatch (map TLit l ++ [bracket stuff]) s.
Proof.
  intros Hp Hc. unfold fnmatch. rewrite (translate_plain_app l _ Hp), (translate_bracket stuff Hc). reflexivity.
Qed.

Lemma tmatch_prefix_set l neg sg rg s :
  tmatch (map TLit l ++ [TSet neg sg rg]) s = true <-> exists x, s = l ++ [x] /\ in_set neg sg rg x = true.
Proof.
  rewrite tmatch_lits, tmatch_set. split.
  - intros [H1 [x [H2 H3]]]. exists x. split; [|exact H3]. rewrite <- (firstn_skipn (length l) s), H1, H2. reflexivity.
  - intros [x [-> H]]. split.
    + rewrite firstn_app, firstn_all, Nat.sub_diag. cbn [firstn]. apply app_nil_r.
    + exists x. split; [|exact H]. rewrite skipn_app, skipn_all, Nat.sub_diag. reflexivity.
Qed.

Lemma in_set_plain sg y : in_set false sg [] y = has y sg.
Proof. unfold in_set. cbn [existsb]. rewrite orb_false_r. destruct (has y sg); reflexivity. Qed.
Lemma in_set_negated sg y : in_set true sg [] y = negb (has y sg).
Proof. unfold in_set. cbn [existsb]. rewrite orb_false_r. destruct (has y sg); reflexivity. Qed.
Lemma in_set_range a c y : in_set false [] [(a, c)] y = (a <=? y) && (y <=? c).
Proof. unfold in_set. cbn [has existsb fst snd orb]. rewrite orb_false_r. destruct ((a <=? y) && (y <=? c)); reflexivity. Qed.

(* "<plain text>[abc]" *)
Theorem bracket_set_selects l x stuff s :
  plain l = true -> x <> c_bang -> x <> c_rb -> ~ In c_rb stuff -> ~ In c_dash (x :: stuff) ->
  (fnmatch s (l ++ c_lb :: (x :: stuff) ++ [c_rb]) = true <-> exists y, s = l ++ [y] /\ In y (x :: stuff)).
Proof.
  intros Hp Hb Hr Hn Hd. rewrite (fnmatch_prefix_bracket l (x :: stuff) s Hp (closing_plain x stuff Hb Hr Hn)).
  rewrite (bracket_plain x stuff Hb) by (apply has_false_iff; exact Hd). rewrite tmatch_prefix_set.
  split; intros [y [E H]]; exists y; (split; [exact E|]).
  - rewrite in_set_plain in H. apply has_true_iff. exact H.
  - rewrite in_set_plain. apply has_true_iff. exact H.
Qed.

(* "<plain text>[!abc]" *)
Theorem bracket_negated_set_selects l y stuff s :
  plain l = true -> y <> c_rb -> ~ In c_rb stuff -> ~ In c_dash (y :: stuff) ->
  (fnmatch s (l ++ c_lb :: (c_bang :: y :: stuff) ++ [c_rb]) = true <-> exists z, s = l ++ [z] /\ ~ In z (y :: stuff)).
Proof.
  intros Hp Hr Hn Hd.
  rewrite (fnmatch_prefix_bracket l (c_bang :: y :: stuff) s Hp (closing_negated y stuff Hr Hn)).
  rewrite (bracket_negated y stuff).
  2:{ apply has_false_iff. intros [H|H]; [discriminate H|apply Hd; exact H]. }
  rewrite tmatch_prefix_set.
  split; intros [z [E H]]; exists z; (split; [exact E|]).
  - rewrite in_set_negated in H. apply negb_true_iff in H. apply has_false_iff. exact H.
  - rewrite in_set_negated. apply negb_true_iff. apply has_false_iff. exact H.
Qed.

(* "<plain text>[a-c]" *)
Theorem bracket_range_selects l a c s :
  plain l = true -> a <> c_bang -> a <> c_rb -> c <> c_rb -> a <= c ->
  (fnmatch s (l ++ c_lb :: [a; c_dash; c] ++ [c_rb]) = true <-> exists y, s = l ++ [y] /\ a <= y <= c).
Proof.
  intros Hp Hb Hr Hcr Hle.
  assert (Hc : closing ([a; c_dash; c] ++ [c_rb]) = Some (length [a; c_dash; c])).
  { apply closing_plain; [exact Hb|exact Hr|]. intros [H|[H|[]]]; [discriminate H|apply Hcr; exact H]. }
  rewrite (fnmatch_prefix_bracket l [a; c_dash; c] s Hp Hc), (bracket_range a c Hb Hle), tmatch_prefix_set.
  split; intros [y [E H]]; exists y; (split; [exact E|]).
  - rewrite in_set_range in H.
    apply andb_prop in H. destruct H as [H1 H2]. apply N.leb_le in H1, H2. split; assumption.
  - rewrite in_set_range. destruct H as [H1 H2].
    apply N.leb_le in H1, H2. rewrite H1, H2. reflexivity.
Qed.

(* "p[0-9]" against "p7", "p", "pa", "p77"; "u_[xyz]"; "[!u]" *)
Example bracket_examples :
  let p := 112 in let u := 117 in
  fnmatch [p; 55] [p; c_lb; 48; c_dash; 57; c_rb] = true /\ fnmatch [p] [p; c_lb; 48; c_dash; 57; c_rb] = false /\
  fnmatch [p; 97] [p; c_lb; 48; c_dash; 57; c_rb] = false /\ fnmatch [p; 55; 55] [p; c_lb; 48; c_dash; 57; c_rb] = false /\
  fnmatch [u; 95; 121] [u; 95; c_lb; 120; 121; 122; c_rb] = true /\ fnmatch [u; 95; 119] [u; 95; c_lb; 120; 121; 122; c_rb] = false /\
  fnmatch [p] [c_lb; c_bang; u; c_rb] = true /\ fnmatch [u] [c_lb; c_bang; u; c_rb] = false.
Proof. vm_compute. repeat split; reflexivity. Qed.
