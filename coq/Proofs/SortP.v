(* Proofs/SortP.v — uniqueness of sorted arrangements and canonical form of the sorted view (C02, noise-free case) *)
From Coq Require Import ZArith Arith Bool List Lia Permutation Sorted.
From FC Require Import Model.SortSpec.
Import ListNotations.

(* ---------------------------------------------------------------- abstract uniqueness *)
Section Unique.
  Variable A : Type.
  Variable lt : A -> A -> Prop.
  Hypothesis lt_irrefl : forall x, ~ lt x x.
  Hypothesis lt_trans : forall x y z, lt x y -> lt y z -> lt x z.

  Lemma sorted_head_min x l : StronglySorted lt (x :: l) -> forall y, In y l -> lt x y.
  Proof. intro H. inversion H; subst. rewrite Forall_forall in H3. exact H3. Qed.

  (* two strictly sorted arrangements of the same collection are identical *)
  Theorem sorted_unique l1 : forall l2,
    StronglySorted lt l1 -> StronglySorted lt l2 -> Permutation l1 l2 -> l1 = l2.
  Proof.
    induction l1 as [|x l1 IH]; intros l2 S1 S2 P.
    - apply Permutation_nil in P. symmetry. exact P.
    - destruct l2 as [|y l2]; [apply Permutation_sym, Permutation_nil in P; discriminate|].
      assert (E : x = y).
      { assert (Hx : In x (y :: l2)) by (apply (Permutation_in _ P); left; reflexivity).
        assert (Hy : In y (x :: l1)) by (apply (Permutation_in _ (Permutation_sym P)); left; reflexivity).
        destruct Hx as [Hx|Hx]; [symmetry; exact Hx|]. destruct Hy as [Hy|Hy]; [exact Hy|].
        exfalso. apply (lt_irrefl x). apply (lt_trans x y x).
        - apply (sorted_head_min x l1 S1 y Hy).
        - apply (sorted_head_min y l2 S2 x Hx). }
      subst y. f_equal. apply IH.
      + inversion S1; assumption.
      + inversion S2; assumption.
      + apply Permutation_cons_inv with (a := x). exact P.
  Qed.
End Unique.

(* ---------------------------------------------------------------- lexicographic order on integer points *)
Definition lex_lt (p q : zpoint) : Prop := lex_ltb p q = true.

Lemma lex_irrefl p : ~ lex_lt p p.
Proof.
  unfold lex_lt. induction p as [|a p IH]; simpl; [discriminate|].
  rewrite Z.ltb_irrefl, Z.eqb_refl. exact IH.
Qed.

Lemma lex_trans p : forall q r, lex_lt p q -> lex_lt q r -> lex_lt p r.
Proof.
  unfold lex_lt. induction p as [|a p IH]; intros [|b q] [|c r] H1 H2; simpl in *; try discriminate; try reflexivity.
  destruct (a <? b)%Z eqn:E1.
  - apply Z.ltb_lt in E1. destruct (b <? c)%Z eqn:E2.
    + apply Z.ltb_lt in E2. assert (X : (a <? c)%Z = true) by (apply Z.ltb_lt; lia). rewrite X. reflexivity.
    + destruct (b =? c)%Z eqn:E3; [|discriminate]. apply Z.eqb_eq in E3. subst.
      assert (X : (a <? c)%Z = true) by (apply Z.ltb_lt; lia). rewrite X. reflexivity.
  - destruct (a =? b)%Z eqn:E1'; [|discriminate]. apply Z.eqb_eq in E1'. subst.
    destruct (b <? c)%Z eqn:E2; [reflexivity|].
    destruct (b =? c)%Z eqn:E3; [|discriminate]. eapply IH; eauto.
Qed.

Lemma sorted_strict_spec l : sorted_strict l = true -> StronglySorted lex_lt l.
Proof.
  induction l as [|p r IH]; intro H; [constructor|].
  simpl in H. destruct r as [|q r'].
  - constructor; constructor.
  - apply andb_true_iff in H. destruct H as [H1 H2]. specialize (IH H2).
    constructor; [exact IH|]. constructor; [exact H1|].
    inversion IH; subst. apply Forall_forall. intros x Hx. rewrite Forall_forall in H4.
    apply (lex_trans p q x H1). apply H4. exact Hx.
Qed.

(* C02: sorting is canonical on noise-free data: whatever strategy arranged them, two strictly lexicographically
   sorted arrangements of the same points are identical, point by point *)
Theorem sorted_points_unique l1 l2 :
  sorted_strict l1 = true -> sorted_strict l2 = true -> Permutation l1 l2 -> l1 = l2.
Proof.
  intros H1 H2 P. apply (sorted_unique zpoint lex_lt lex_irrefl lex_trans); [apply sorted_strict_spec; exact H1 | apply sorted_strict_spec; exact H2 | exact P].
Qed.

(* keys: same statement for cells ordered by an injective key *)
Lemma increasing_spec l : increasing l = true -> StronglySorted Z.lt l.
Proof.
  induction l as [|a r IH]; intro H; [constructor|]. simpl in H. destruct r as [|b r'].
  - constructor; constructor.
  - apply andb_true_iff in H. destruct H as [H1 H2]. specialize (IH H2). apply Z.ltb_lt in H1.
    constructor; [exact IH|]. constructor; [exact H1|].
    inversion IH; subst. apply Forall_forall. intros x Hx. rewrite Forall_forall in H4. specialize (H4 x Hx). lia.
Qed.

Theorem sorted_keys_unique l1 l2 :
  increasing l1 = true -> increasing l2 = true -> Permutation l1 l2 -> l1 = l2.
Proof.
  intros H1 H2 P. apply (sorted_unique Z Z.lt Z.lt_irrefl Z.lt_trans); [apply increasing_spec; exact H1 | apply increasing_spec; exact H2 | exact P].
Qed.

(* ---------------------------------------------------------------- the sorted view depends only on geometry *)
Lemma zpoint_eqb_eq p q : zpoint_eqb p q = true <-> p = q.
Proof.
  revert q. induction p as [|a p IH]; intros [|b q]; simpl; split; intro H; try congruence; try reflexivity.
  - apply andb_true_iff in H. destruct H as [H1 H2]. apply Z.eqb_eq in H1. apply IH in H2. congruence.
  - inversion H; subst. rewrite Z.eqb_refl. simpl. apply IH. reflexivity.
Qed.

Lemma pos_of_nth S : NoDup S -> forall k, k < length S -> pos_of S (nth k S []) = Some k.
Proof.
  induction S as [|q r IH]; intros ND k Hk; simpl in Hk; [lia|]. inversion ND; subst.
  destruct k as [|k]; simpl.
  - assert (X : zpoint_eqb q q = true) by (apply zpoint_eqb_eq; reflexivity). rewrite X. reflexivity.
  - destruct (zpoint_eqb q (nth k r [])) eqn:E.
    + apply zpoint_eqb_eq in E. exfalso. apply H1. rewrite E. apply nth_In. lia.
    + rewrite IH by (assumption || lia). reflexivity.
Qed.

(* C02: in the view whose points are the duplicate-free list S, the connectivity row of a cell is obtained from the
   COORDINATES of its corners alone (position of each corner's coordinates in S): it does not depend on how the original
   data set numbered its points *)
Theorem canonical_row (P S : list zpoint) (p : list nat) (row : list nat) :
  NoDup S -> S = map (fun i => nth i P []) p ->
  forall row', map (fun k => nth k p 0) row' = row -> Forall (fun k => k < length p) row' ->
  map Some row' = map (fun c => pos_of S (nth c P [])) row.
Proof.
  intros ND HS row' Hmap HF. subst row. rewrite map_map.
  apply map_ext_in. intros k Hk. rewrite Forall_forall in HF. specialize (HF k Hk).
  assert (NM : forall (l : list nat) j, j < length l -> nth j (map (fun i => nth i P []) l) [] = nth (nth j l 0) P []).
  { induction l as [|x l IHl]; intros [|j] Hj; simpl in *; try lia; [reflexivity | apply IHl; lia]. }
  assert (E : nth (nth k p 0) P [] = nth k S []).
  { subst S. symmetry. apply NM. exact HF. }
  rewrite E. symmetry. apply pos_of_nth; [exact ND|]. subst S. rewrite map_length. exact HF.
Qed.
