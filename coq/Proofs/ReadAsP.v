From Coq Require Import Arith Bool List Lia.
From FC Require Import Model.ReadAs.
Import ListNotations.

Lemma readers_in_order_in maps : forall seen r,
  In r (readers_in_order maps seen) -> exists p, In (r, p) maps.
Proof.
  induction maps as [|[r0 p0] rest IH]; intros seen r H; simpl in H; [contradiction|].
  destruct (existsb (Nat.eqb r0) seen).
  - destruct (IH _ _ H) as [p Hp]. exists p. right. exact Hp.
  - destruct H as [H|H]; [subst; exists p0; left; reflexivity|]. destruct (IH _ _ H) as [p Hp]. exists p. right. exact Hp.
Qed.

(* the selected reader has a matching pattern among ITS mappings *)
Theorem select_reader_matches maps matches r :
  select_reader maps matches = Some r -> exists p, In (r, p) maps /\ matches p = true.
Proof.
  unfold select_reader. intro H. apply find_some in H. destruct H as [_ H].
  apply existsb_exists in H. destruct H as [p [Hp Hm]]. exists p. split; [|exact Hm].
  unfold patterns_of in Hp. apply in_map_iff in Hp. destruct Hp as [[r' p'] [E Hf]]. simpl in E. subst p'.
  apply filter_In in Hf. destruct Hf as [Hin Hr]. simpl in Hr. apply Nat.eqb_eq in Hr. subst. exact Hin.
Qed.

(* no reader is selected iff no mapping's pattern matches: the default (extension-based) reader is used exactly then *)
Theorem select_reader_none maps matches :
  select_reader maps matches = None <-> forall r p, In (r, p) maps -> matches p = false.
Proof.
  unfold select_reader. split.
  - intros H r p Hin. destruct (matches p) eqn:E; [|reflexivity]. exfalso.
    assert (Hr : In r (readers_in_order maps [])).
    { clear -Hin. assert (G : forall seen, In r (readers_in_order maps seen) \/ In r seen).
      { induction maps as [|[r0 p0] rest IH]; intro seen; [contradiction|]. simpl.
        destruct Hin as [Hin|Hin].
        - inversion Hin; subst. destruct (existsb (Nat.eqb r) seen) eqn:Ex.
          + right. apply existsb_exists in Ex. destruct Ex as [x [Hx Ex]]. apply Nat.eqb_eq in Ex. subst. exact Hx.
          + left. left. reflexivity.
        - destruct (existsb (Nat.eqb r0) seen) eqn:Ex.
          + apply IH. exact Hin.
          + destruct (IH Hin (r0 :: seen)) as [G|[G|G]]; [left; right; exact G | subst; left; left; reflexivity | right; exact G]. }
      destruct (G []) as [X|X]; [exact X | contradiction]. }
    pose proof (find_none _ _ H r Hr) as X. simpl in X.
    assert (Y : existsb matches (patterns_of maps r) = true).
    { apply existsb_exists. exists p. split; [|exact E]. unfold patterns_of. apply in_map_iff. exists (r, p). split; [reflexivity|].
      apply filter_In. split; [exact Hin | simpl; apply Nat.eqb_refl]. }
    congruence.
  - intro H. destruct (find _ _) as [r|] eqn:F; [|reflexivity]. exfalso.
    destruct (select_reader_matches maps matches r F) as [p [Hin Hm]]. rewrite (H r p Hin) in Hm. discriminate.
Qed.
