(* Proofs/VtuFileP.v — the composed write/read theorem for whole .vtu files (C13). *)
From Coq Require Import NArith ZArith List Bool Lia.
From FC Require Import Model.Codec Proofs.CodecP Model.VtuFile.
Import ListNotations.
Local Open Scope N_scope.

Notation groups := (list (N * list (list N))).

(* an array the writer can serialise and the reader can take back: rows of nc entries within the type's range, byte
   count below 2^64 (the UInt64 header) *)
Definition wf_arr (t : vtype) (nc : N) (rs : rows) : Prop :=
  (0 < vwidth t)%nat /\ 1 <= nc /\ Forall (fun r => lenN r = nc) rs /\ Forall (Forall (in_range t)) rs /\
  lenN rs * nc * N.of_nat (vwidth t) < 2 ^ 64.
Definition wf_narray (a : narray) : Prop := wf_arr (a_type a) (a_nc a) (a_rows a).

(* index arrays (connectivity, offsets, types) fit a signed 64-bit integer *)
Definition fits_index (l : list N) : Prop := Forall (fun i => i < 2 ^ 63) l /\ lenN l * 8 < 2 ^ 64.

Lemma rd_mk bo t nc rs : wf_arr t nc rs ->
  rd bo (mk bo t nc rs) = Some {| a_type := t; a_nc := nc; a_rows := rs |}.
Proof.
  intros (Hw & Hnc & Hs & Hr & Hb). unfold rd, mk. cbn [da_type da_nc da_text].
  rewrite vtu_write_read by assumption. reflexivity.
Qed.

Lemma rd_mk_arr bo a : wf_narray a -> rd bo (mk_arr bo a) = Some a.
Proof. intros H. destruct a as [t nc rs]. unfold mk_arr. cbn [a_type a_nc a_rows]. apply rd_mk. exact H. Qed.

Lemma uncol_col l : uncol (col l) = l.
Proof.
  unfold uncol, col. rewrite map_map. induction l as [|x l IH]; cbn [map hd]; [reflexivity|].
  rewrite N2Z.id. f_equal. exact IH.
Qed.

Lemma lenN_col l : lenN (col l) = lenN l.
Proof. unfold lenN, col. rewrite map_length. reflexivity. Qed.

Lemma wf_col t l : t = VInt 8 \/ t = VUInt 8 -> fits_index l -> wf_arr t 1 (col l).
Proof.
  intros Ht [Hr Hl]. unfold wf_arr. repeat split.
  - destruct Ht; subst t; cbn [vwidth]; lia.
  - lia.
  - unfold col. apply Forall_map. apply Forall_forall. intros x _. reflexivity.
  - unfold col. apply Forall_map. rewrite Forall_forall in *. intros x Hx. specialize (Hr x Hx).
    constructor; [|constructor].
    assert (Hx' : (0 <= Z.of_N x < 9223372036854775808)%Z) by (change (2 ^ 63) with 9223372036854775808 in Hr; lia).
    destruct Ht; subst t; unfold in_range;
      change (256 ^ Z.of_nat 8)%Z with 18446744073709551616%Z; lia.
  - rewrite lenN_col. destruct Ht; subst t; cbn [vwidth]; change (N.of_nat 8) with 8; lia.
Qed.

Lemma index_type_cases g : index_type g = VInt 8 \/ index_type g = VUInt 8.
Proof. unfold index_type. destruct (writer_cells g); [right|left]; reflexivity. Qed.

Lemma rd_all_map {X} bo (f : X -> bytes) (t : X -> vtype) (c : X -> N) (r : X -> rows) (l : list X) :
  Forall (fun x => wf_arr (t x) (c x) (r x)) l ->
  rd_all bo (map (fun x => (f x, mk bo (t x) (c x) (r x))) l)
  = Some (map (fun x => (f x, {| a_type := t x; a_nc := c x; a_rows := r x |})) l).
Proof.
  intros H. induction H as [|x l Hx Hl IH]; [reflexivity|].
  cbn [map rd_all]. rewrite (rd_mk bo _ _ _ Hx), IH. reflexivity.
Qed.

Lemma rd_all_arrays bo (l : list (bytes * narray)) : Forall (fun na => wf_narray (snd na)) l ->
  rd_all bo (map (fun na => (fst na, mk_arr bo (snd na))) l) = Some l.
Proof.
  intros H. unfold mk_arr.
  rewrite (rd_all_map bo fst (fun na => a_type (snd na)) (fun na => a_nc (snd na)) (fun na => a_rows (snd na)) l H).
  f_equal. rewrite <- (map_id l) at 2. apply map_ext. intros [n [t nc rs]]. reflexivity.
Qed.

(* ------------------------------------------------------------------------------------------------ *)
(* cell data: the concatenation of the per-type rows (in the mesh's order of cell types) is split by    *)
(* the reader into exactly those per-type rows                                                         *)
(* ------------------------------------------------------------------------------------------------ *)
Lemma combine_app {A B} (a1 a2 : list A) (b1 b2 : list B) : length a1 = length b1 ->
  combine (a1 ++ a2) (b1 ++ b2) = combine a1 b1 ++ combine a2 b2.
Proof.
  revert b1. induction a1 as [|x a1 IH]; intros [|y b1] H; try discriminate; [reflexivity|].
  cbn [app combine]. f_equal. apply IH. simpl in H. lia.
Qed.

Lemma filter_group {R} t0 t (cs0 : list (list N)) : forall (rs0 : list R), length rs0 = length cs0 ->
  map snd (filter (fun cr => fst (fst cr) =? t) (combine (map (fun c => (t0, c)) cs0) rs0))
  = if t0 =? t then rs0 else [].
Proof.
  induction cs0 as [|c cs0 IH]; intros [|r rs0] H; try discriminate.
  - destruct (t0 =? t); reflexivity.
  - cbn [map combine filter fst]. specialize (IH rs0 ltac:(simpl in H; lia)).
    destruct (t0 =? t); cbn [map snd]; rewrite IH; reflexivity.
Qed.

Lemma rows_absent {R} t (g : groups) : forall (per : list (list R)),
  Forall2 (fun gr rs => length rs = length (snd gr)) g per -> ~ In t (map fst g) ->
  map snd (filter (fun cr => fst (fst cr) =? t) (combine (writer_cells g) (concat per))) = [].
Proof.
  induction g as [|[t0 cs0] g IH]; intros per H Hn; inversion H as [|gr rs0 g' per' Hlen Hrest]; subst; [reflexivity|].
  rewrite writer_cells_cons. cbn [concat]. cbn [snd] in Hlen.
  rewrite combine_app by (rewrite map_length; lia).
  rewrite filter_app, map_app, (filter_group t0 t cs0 rs0 Hlen).
  cbn [map fst] in Hn.
  destruct (N.eqb_spec t0 t) as [E|E]; [exfalso; apply Hn; left; exact E|].
  cbn [app]. apply IH; [exact Hrest|]. intro C. apply Hn. right. exact C.
Qed.

Lemma rows_present {R} t (g : groups) : forall (per : list (list R)) cs rs, NoDup (map fst g) ->
  Forall2 (fun gr rs => length rs = length (snd gr)) g per -> In ((t, cs), rs) (combine g per) ->
  map snd (filter (fun cr => fst (fst cr) =? t) (combine (writer_cells g) (concat per))) = rs.
Proof.
  induction g as [|[t0 cs0] g IH]; intros per cs rs Hnd H Hin; inversion H as [|gr rs0 g' per' Hlen Hrest]; subst;
    [destruct Hin|].
  rewrite writer_cells_cons. cbn [concat]. cbn [snd] in Hlen.
  rewrite combine_app by (rewrite map_length; lia).
  rewrite filter_app, map_app, (filter_group t0 t cs0 rs0 Hlen).
  cbn [map fst] in Hnd. apply NoDup_cons_iff in Hnd. destruct Hnd as [Hnot Hnd].
  cbn [combine] in Hin. destruct Hin as [E|Hin].
  - injection E as E1 E2 E3. subst t0 cs0 rs0. rewrite N.eqb_refl.
    rewrite (rows_absent t g per' Hrest Hnot). apply app_nil_r.
  - assert (Ht : In t (map fst g)).
    { apply in_combine_l in Hin. apply in_map_iff. exists (t, cs). split; [reflexivity|exact Hin]. }
    destruct (N.eqb_spec t0 t) as [E|E]; [subst t0; contradiction|].
    cbn [app]. apply (IH per' cs rs Hnd Hrest Hin).
Qed.

Lemma length_writer_cells (g : groups) : forall (per : list rows),
  Forall2 (fun gr rs => length rs = length (snd gr)) g per -> length (concat per) = length (writer_cells g).
Proof.
  induction g as [|[t0 cs0] g IH]; intros per H; inversion H as [|gr rs0 g' per' Hlen Hrest]; subst; [reflexivity|].
  rewrite writer_cells_cons. cbn [concat]. rewrite !app_length, map_length. cbn [snd] in Hlen. rewrite (IH per' Hrest). lia.
Qed.

Lemma types_in_file (g : groups) t : In t (writer_types g) <-> exists cs, In (t, cs) g /\ cs <> [].
Proof.
  unfold writer_types. rewrite in_map_iff. split.
  - intros [[t' c] [E Hin]]. cbn [fst] in E. subst t'. apply in_writer_cells in Hin.
    destruct Hin as [cs [Hg Hc]]. exists cs. split; [exact Hg|]. intro C. subst cs. destruct Hc.
  - intros [cs [Hg Hne]]. destruct cs as [|c cs]; [congruence|]. exists (t, c). split; [reflexivity|].
    apply in_writer_cells. exists (c :: cs). split; [exact Hg|left; reflexivity].
Qed.

Lemma Forall2_len {A B} (P : A -> B -> Prop) (l : list A) (m : list B) : Forall2 P l m -> length l = length m.
Proof. intros H. induction H as [|x y l m _ _ IH]; [reflexivity|]. simpl. rewrite IH. reflexivity. Qed.

Lemma in_combine_partner {A B} (a : A) : forall (l : list A) (m : list B), length l = length m -> In a l ->
  exists b, In (a, b) (combine l m).
Proof.
  induction l as [|x l IH]; intros [|y m] Hl Hin; try discriminate; [destruct Hin|].
  destruct Hin as [E|Hin].
  - subst x. exists y. left. reflexivity.
  - destruct (IH m ltac:(simpl in Hl; lia) Hin) as [b Hb]. exists b. right. exact Hb.
Qed.

(* what the reader makes of one cell-data array of the written file *)
Definition regrouped (g : groups) (per : list rows) : list (N * rows) :=
  regroup_cell_data (concat per) (writer_types g) [].

Theorem regrouped_correct (g : groups) (per : list rows) :
  NoDup (map fst g) -> Forall2 (fun gr rs => length rs = length (snd gr)) g per ->
  ascending (map fst (regrouped g per)) /\
  (forall t cs rs, In ((t, cs), rs) (combine g per) -> cs <> [] -> In (t, rs) (regrouped g per)) /\
  (forall t rs, In (t, rs) (regrouped g per) -> exists cs, In ((t, cs), rs) (combine g per) /\ cs <> []).
Proof.
  intros Hnd Hper.
  assert (E : regrouped g per
              = map (fun t => (t, map snd (filter (fun cr => fst (fst cr) =? t) (combine (writer_cells g) (concat per)))))
                    (unique_sorted (writer_types g))).
  { unfold regrouped. apply (regroup_cell_data_correct (writer_cells g)). apply length_writer_cells. exact Hper. }
  rewrite E. repeat split.
  - rewrite map_map. cbn [fst]. rewrite map_id. apply unique_sorted_ascending.
  - intros t cs rs Hin Hne. apply in_map_iff. exists t. split.
    + rewrite (rows_present t g per cs rs Hnd Hper Hin). reflexivity.
    + apply unique_sorted_in. apply types_in_file. exists cs. split; [|exact Hne]. apply in_combine_l in Hin. exact Hin.
  - intros t rs Hin. apply in_map_iff in Hin. destruct Hin as [t' [Eq Hin]]. injection Eq as Et Ers. subst t'.
    apply (proj1 (unique_sorted_in _ _)) in Hin. apply (proj1 (types_in_file _ _)) in Hin. destruct Hin as [cs [Hg Hne]].
    assert (Hl : length g = length per) by (apply (Forall2_len _ _ _ Hper)).
    destruct (in_combine_partner (t, cs) g per Hl Hg) as [rs' Hrs'].
    exists cs. split; [|exact Hne].
    rewrite (rows_present t g per cs rs' Hnd Hper Hrs') in Ers. subst rs'. exact Hrs'.
Qed.

(* ------------------------------------------------------------------------------------------------ *)
(* the whole file                                                                                     *)
(* ------------------------------------------------------------------------------------------------ *)
Record wf_vdata (d : vdata) : Prop := {
  wf_points : wf_narray (v_points d);
  wf_nodup : NoDup (map fst (v_groups d));
  wf_conn : wf_arr (v_itype d) 1 (col (writer_connectivity (v_groups d)));
  wf_offs : fits_index (writer_offsets (v_groups d));
  wf_types : fits_index (writer_types (v_groups d));
  wf_pd : Forall (fun na => wf_narray (snd na)) (v_pdata d);
  wf_cd : Forall (fun nc => wf_arr (fst (fst (snd nc))) (snd (fst (snd nc))) (concat (snd (snd nc)))) (v_cdata d)
}.

Definition expected_read (d : vdata) : vread :=
  {| r_points := v_points d;
     r_groups := regroup_cells (writer_connectivity (v_groups d)) (writer_offsets (v_groups d)) (writer_types (v_groups d));
     r_pdata := v_pdata d;
     r_cdata := map (fun nc => (fst nc, (fst (fst (snd nc)), snd (fst (snd nc)), regrouped (v_groups d) (snd (snd nc)))))
                    (v_cdata d) |}.

Theorem read_write_vtu bo d : wf_vdata d -> read_vtu bo (write_vtu bo d) = Some (expected_read d).
Proof.
  intros [Hp Hnd Hc Ho Ht Hpd Hcd]. unfold read_vtu, write_vtu.
  cbn [f_points f_conn f_offs f_types f_pdata f_cdata].
  rewrite (rd_mk_arr bo _ Hp).
  rewrite (rd_mk bo _ _ _ Hc).
  rewrite (rd_mk bo _ _ _ (wf_col _ _ (index_type_cases _) Ho)).
  rewrite (rd_mk bo _ _ _ (wf_col _ _ (index_type_cases _) Ht)).
  rewrite (rd_all_arrays bo _ Hpd).
  rewrite (rd_all_map bo fst (fun nc => fst (fst (snd nc))) (fun nc => snd (fst (snd nc))) (fun nc => concat (snd (snd nc)))
                      (v_cdata d) Hcd).
  cbn [a_rows]. rewrite !uncol_col. unfold expected_read. f_equal. f_equal.
  rewrite map_map. apply map_ext. intros [n [[t nc] per]]. reflexivity.
Qed.

Theorem vtu_file_write_read bo d : wf_vdata d ->
  exists r, read_vtu bo (write_vtu bo d) = Some r /\
    r_points r = v_points d /\ r_pdata r = v_pdata d /\
    ascending (map fst (r_groups r)) /\
    (forall t cs, In (t, cs) (v_groups d) -> cs <> [] -> In (t, cs) (r_groups r)) /\
    (forall t cs, In (t, cs) (r_groups r) -> In (t, cs) (v_groups d) /\ cs <> []) /\
    r_cdata r = map (fun nc => (fst nc, (fst (fst (snd nc)), snd (fst (snd nc)), regrouped (v_groups d) (snd (snd nc)))))
                    (v_cdata d).
Proof.
  intros H. exists (expected_read d). split; [apply read_write_vtu; exact H|].
  destruct (vtu_cells_write_read (v_groups d) (wf_nodup d H)) as (Ha & Hin & Hout).
  unfold expected_read. cbn [r_points r_pdata r_groups r_cdata].
  split; [reflexivity|]. split; [reflexivity|]. split; [exact Ha|]. split; [exact Hin|]. split; [exact Hout|]. reflexivity.
Qed.

(* a concrete well-formed data set *)
Definition example_vdata : vdata :=
  {| v_points := {| a_type := VFloat 8; a_nc := 3;
                    a_rows := [[0; 0; 0]; [4607182418800017408; 0; 0]; [4607182418800017408; 4607182418800017408; 0];
                               [0; 4607182418800017408; 0]; [4611686018427387904; 0; 0];
                               [4611686018427387904; 4607182418800017408; 0]]%Z |};
     v_groups := [(9, [[0; 1; 2; 3]]); (5, [[1; 4; 5]; [1; 5; 2]])];
     v_itype := VInt 4;
     v_pdata := [([118], {| a_type := VFloat 8; a_nc := 2;
                            a_rows := [[0; 9223372036854775808]; [1; 2]; [3; 4]; [5; 6]; [7; 8]; [9; 18446744073709551615]]%Z |})];
     v_cdata := [([99], (VInt 2, 1, [[[-32768]]; [[32767]; [-1]]]%Z))] |}.

(* ------------------------------------------------------------------------------------------------ *)
(* a decision procedure for the hypotheses (run by the correspondence check on every data set it ties)  *)
(* ------------------------------------------------------------------------------------------------ *)
Definition in_rangeb (t : vtype) (z : Z) : bool :=
  match t with
  | VInt w => ((- (256 ^ Z.of_nat w / 2) <=? z) && (z <? 256 ^ Z.of_nat w / 2))%Z
  | VUInt w | VFloat w => ((0 <=? z) && (z <? 256 ^ Z.of_nat w))%Z
  end.
Definition wf_arrb (t : vtype) (nc : N) (rs : rows) : bool :=
  (0 <? vwidth t)%nat && (1 <=? nc) && forallb (fun r => lenN r =? nc) rs && forallb (forallb (in_rangeb t)) rs &&
  (lenN rs * nc * N.of_nat (vwidth t) <? 2 ^ 64).
Definition fits_indexb (l : list N) : bool := forallb (fun i => i <? 2 ^ 63) l && (lenN l * 8 <? 2 ^ 64).
Fixpoint nodupb (l : list N) : bool :=
  match l with [] => true | x :: r => negb (existsb (N.eqb x) r) && nodupb r end.
Definition rectangularb (g : groups) : bool :=
  forallb (fun gr => match snd gr with [] => true | c :: cs => forallb (fun c' => lenN c' =? lenN c) cs end) g.
Definition wf_vdatab (d : vdata) : bool :=
  wf_arrb (a_type (v_points d)) (a_nc (v_points d)) (a_rows (v_points d)) &&
  nodupb (map fst (v_groups d)) &&
  wf_arrb (v_itype d) 1 (col (writer_connectivity (v_groups d))) &&
  fits_indexb (writer_offsets (v_groups d)) && fits_indexb (writer_types (v_groups d)) &&
  forallb (fun na => wf_arrb (a_type (snd na)) (a_nc (snd na)) (a_rows (snd na))) (v_pdata d) &&
  forallb (fun nc => wf_arrb (fst (fst (snd nc))) (snd (fst (snd nc))) (concat (snd (snd nc)))) (v_cdata d).

Lemma in_rangeb_sound t z : in_rangeb t z = true -> in_range t z.
Proof. destruct t; unfold in_rangeb, in_range; intros H; apply andb_prop in H; destruct H as [H1 H2]; lia. Qed.

Lemma wf_arrb_sound t nc rs : wf_arrb t nc rs = true -> wf_arr t nc rs.
Proof.
  unfold wf_arrb, wf_arr. intros H.
  apply andb_prop in H. destruct H as [H H5]. apply andb_prop in H. destruct H as [H H4].
  apply andb_prop in H. destruct H as [H H3]. apply andb_prop in H. destruct H as [H1 H2].
  repeat split.
  - apply Nat.ltb_lt in H1. exact H1.
  - apply N.leb_le in H2. exact H2.
  - apply Forall_forall. intros r Hr. rewrite forallb_forall in H3. apply N.eqb_eq. apply H3. exact Hr.
  - apply Forall_forall. intros r Hr. rewrite forallb_forall in H4. specialize (H4 r Hr).
    apply Forall_forall. intros z Hz. rewrite forallb_forall in H4. apply in_rangeb_sound. apply H4. exact Hz.
  - apply N.ltb_lt in H5. exact H5.
Qed.

Lemma fits_indexb_sound l : fits_indexb l = true -> fits_index l.
Proof.
  unfold fits_indexb, fits_index. intros H. apply andb_prop in H. destruct H as [H1 H2]. split.
  - apply Forall_forall. intros i Hi. rewrite forallb_forall in H1. apply N.ltb_lt. apply H1. exact Hi.
  - apply N.ltb_lt in H2. exact H2.
Qed.

Lemma nodupb_sound l : nodupb l = true -> NoDup l.
Proof.
  induction l as [|x l IH]; intros H; [constructor|]. cbn [nodupb] in H. apply andb_prop in H. destruct H as [H1 H2].
  constructor; [|apply IH; exact H2]. intro Hin. apply negb_true_iff in H1.
  assert (E : existsb (N.eqb x) l = true) by (apply existsb_exists; exists x; split; [exact Hin|apply N.eqb_refl]).
  congruence.
Qed.

Lemma rectangularb_sound g : rectangularb g = true -> rectangular g.
Proof.
  unfold rectangularb, rectangular. intros H t cs Hin. rewrite forallb_forall in H. specialize (H (t, cs) Hin). cbn [snd] in H.
  destruct cs as [|c cs]; [exists 0; constructor|]. exists (lenN c). constructor; [reflexivity|].
  apply Forall_forall. intros c' Hc'. rewrite forallb_forall in H. apply N.eqb_eq. apply H. exact Hc'.
Qed.

Theorem wf_vdatab_sound d : wf_vdatab d = true -> wf_vdata d.
Proof.
  unfold wf_vdatab. intros H.
  apply andb_prop in H. destruct H as [H H8]. apply andb_prop in H. destruct H as [H H7].
  apply andb_prop in H. destruct H as [H H6]. apply andb_prop in H. destruct H as [H H5].
  apply andb_prop in H. destruct H as [H H4].
  apply andb_prop in H. destruct H as [H1 H2].
  constructor.
  - apply wf_arrb_sound. exact H1.
  - apply nodupb_sound. exact H2.
  - apply wf_arrb_sound. exact H4.
  - apply fits_indexb_sound. exact H5.
  - apply fits_indexb_sound. exact H6.
  - apply Forall_forall. intros na Hna. rewrite forallb_forall in H7. apply wf_arrb_sound. apply H7. exact Hna.
  - apply Forall_forall. intros nc Hnc. rewrite forallb_forall in H8. apply wf_arrb_sound. apply H8. exact Hnc.
Qed.

(* the per-type rows of every cell field match the cells of the type (hypothesis of regrouped_correct) *)
Fixpoint alignedb (g : groups) (per : list rows) : bool :=
  match g, per with
  | [], [] => true
  | gr :: g', rs :: per' => Nat.eqb (length rs) (length (snd gr)) && alignedb g' per'
  | _, _ => false
  end.
Lemma alignedb_sound g : forall per, alignedb g per = true -> Forall2 (fun gr rs => length rs = length (snd gr)) g per.
Proof.
  induction g as [|gr g IH]; intros [|rs per] H; try discriminate; [constructor|].
  cbn [alignedb] in H. apply andb_prop in H. destruct H as [H1 H2]. constructor; [apply Nat.eqb_eq; exact H1|apply IH; exact H2].
Qed.
Definition cdata_alignedb (d : vdata) : bool := forallb (fun nc => alignedb (v_groups d) (snd (snd nc))) (v_cdata d).

Lemma example_vdata_wf : wf_vdata example_vdata.
Proof. apply wf_vdatab_sound. vm_compute. reflexivity. Qed.
