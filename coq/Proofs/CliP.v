(* Proofs/CliP.v — laws of the CLI decision algebra (C04, C15, C18 decision layer, C20, C12) *)
From Coq Require Import Arith Bool List Lia Permutation.
From FC Require Import Model.Compare Model.Cli Proofs.CompareP.
Import ListNotations.

(* ------------------------------------------------------------------ status algebra *)
Lemma forallb_map {A B} (f : B -> bool) (g : A -> B) l : forallb f (map g l) = forallb (fun x => f (g x)) l.
Proof. induction l as [|x l IH]; simpl; [reflexivity|]. rewrite IH. reflexivity. Qed.

Lemma exit_code_zero b : exit_code b = 0 <-> b = true.
Proof. destruct b; simpl; split; congruence. Qed.

Lemma parse_status_ok is ir s :
  tstatus_ok (parse_status is ir s) = true <->
  s = Passed \/ s = Filtered \/ (s = MissingSource /\ is = true) \/ (s = MissingReference /\ ir = true).
Proof.
  destruct s, is, ir; simpl; split; intro H; try reflexivity; try discriminate; try tauto;
    repeat (destruct H as [H|H]); try discriminate; try (destruct H; discriminate).
Qed.

Lemma to_tsuite_bool is ir S :
  tsuite_bool (to_tsuite is ir S) =
  dom_ok S && forallb (fun e => tstatus_ok (parse_status is ir (snd e))) (entries S).
Proof.
  unfold to_tsuite, tsuite_bool. destruct (dom_ok S); simpl; [|reflexivity].
  unfold tests_ok. rewrite forallb_map. reflexivity.
Qed.

(* ignored missing fields are skipped, and the verdict is still the conjunction over all other entries *)
Theorem ignored_missing_does_not_hide_failure is ir S :
  tsuite_bool (to_tsuite is ir S) = true <->
  dom_ok S = true /\
  forall e, In e (entries S) ->
    snd e = Passed \/ snd e = Filtered \/ (snd e = MissingSource /\ is = true) \/ (snd e = MissingReference /\ ir = true).
Proof.
  rewrite to_tsuite_bool, andb_true_iff, forallb_forall. split; intros [H1 H2]; split; try exact H1;
    intros e He; apply parse_status_ok; apply H2; exact He.
Qed.

(* ------------------------------------------------------------------ file mode exit code *)
Section FileExit.
  Variable D : Type.
  Variables (dom : D -> D -> bool) (flds : D -> list field) (out : D -> D -> nat -> outcome).
  Variables (incl excl : nat -> bool) (is ir : bool).

  Local Notation cmp_fd := (cmp_fd D dom flds out incl excl is ir).

  (* C04: exit code 0 iff both files readable, same kind, domains equal, every selected common field passes,
     and one-sided fields occur only where the matching ignore flag is set *)
  Theorem cli_exit_iff_data ign force (r s : readres D) (a b : D) :
    r = RData a -> s = RData b ->
    NoDup (names (flds a)) -> NoDup (names (flds b)) ->
    (cli_file cmp_fd ign force r s = 0 <->
       dom a b = true /\
       (forall f, In f (flds a) -> In (fname f) (names (flds b)) -> selected incl excl f = true -> out a b (fname f) = OPass) /\
       (forall n, In n (names (flds a)) -> ~ In n (names (flds b)) -> ir = true) /\
       (forall n, ~ In n (names (flds a)) -> In n (names (flds b)) -> is = true)).
  Proof.
    intros Hr Hs NA NB. subst r s. unfold cli_file, file_compare. rewrite exit_code_zero.
    unfold Cli.cmp_fd. rewrite ignored_missing_does_not_hide_failure.
    destruct (dom a b) eqn:Hd.
    - simpl dom_ok. split.
      + intros [_ H]. split; [reflexivity|]. split; [|split].
        * intros f Hf Hin Sel.
          assert (E : In (fname f, status_of (out a b (fname f))) (entries (compare true incl excl (out a b) (flds a) (flds b)))).
          { apply status_correct; try assumption. left. exists f. tauto. }
          apply H in E. simpl in E. destruct (out a b (fname f)); simpl in E; [reflexivity| |];
            repeat (destruct E as [E|E]); try discriminate; destruct E; discriminate.
        * intros n H1 H2.
          assert (E : In (n, MissingReference) (entries (compare true incl excl (out a b) (flds a) (flds b)))).
          { apply status_correct; try assumption. right. right. left. tauto. }
          apply H in E. simpl in E. repeat (destruct E as [E|E]); try discriminate; destruct E as [E1 E2]; try discriminate. exact E2.
        * intros n H1 H2.
          assert (E : In (n, MissingSource) (entries (compare true incl excl (out a b) (flds a) (flds b)))).
          { apply status_correct; try assumption. right. right. right. tauto. }
          apply H in E. simpl in E. repeat (destruct E as [E|E]); try discriminate; destruct E as [E1 E2]; try discriminate. exact E2.
      + intros [_ [H1 [H2 H3]]]. split; [reflexivity|]. intros [n st] He. simpl.
        apply status_correct in He; try assumption.
        destruct He as [[f [Hf [En [Hin [Sel Est]]]]]|[[f [Hf [En [Hin [Sel Est]]]]]|[[Hs [Hr Est]]|[Hs [Hr Est]]]]].
        * left. subst st. rewrite <- En. rewrite (H1 f Hf); [reflexivity| rewrite En; exact Hin | exact Sel].
        * right. left. exact Est.
        * right. right. right. split; [exact Est | eapply H2; eauto].
        * right. right. left. split; [exact Est | eapply H3; eauto].
    - simpl. split; [intros [H _]; discriminate | intros [H _]; discriminate].
  Qed.

  (* C04 / C18: any read error, internal exception or kind mismatch yields a non-zero exit code, in both roles *)
  Theorem any_error_nonzero ign force (r s : readres D) :
    (r = RIOErr \/ r = ROther \/ s = RIOErr \/ s = ROther \/
     (exists a l, r = RData a /\ s = RSeq l) \/ (exists a l, r = RSeq l /\ s = RData a)) ->
    cli_file cmp_fd ign force r s = 1.
  Proof.
    unfold cli_file, file_compare.
    intros [H|[H|[H|[H|[[a [l [H1 H2]]]|[a [l [H1 H2]]]]]]]]; subst; try reflexivity; destruct r; reflexivity.
  Qed.

  (* C18 decision layer: a data set that lost a field or whose domain differs never passes (no ignore flags) *)
  Theorem lost_field_nonzero ign force a b n :
    NoDup (names (flds a)) -> NoDup (names (flds b)) ->
    is = false -> ir = false ->
    ((In n (names (flds a)) /\ ~ In n (names (flds b))) \/ (~ In n (names (flds a)) /\ In n (names (flds b))) \/ dom a b = false) ->
    cli_file cmp_fd ign force (RData a) (RData b) = 1.
  Proof.
    intros NA NB His Hir H.
    destruct (cli_file cmp_fd ign force (RData a) (RData b)) as [|[|k]] eqn:E; [|reflexivity|].
    - exfalso. apply (cli_exit_iff_data ign force _ _ a b eq_refl eq_refl NA NB) in E.
      destruct E as [Hd [_ [H2 H3]]]. destruct H as [[H H']|[[H H']|H]].
      + specialize (H2 n H H'). congruence.
      + specialize (H3 n H H'). congruence.
      + congruence.
    - unfold cli_file, file_compare in E. destruct (tsuite_bool _); simpl in E; discriminate.
  Qed.
End FileExit.

(* ------------------------------------------------------------------ tolerance lookup *)
Section TolLookup.
  Variable V : Type.
  Implicit Types args : list (option nat * V).

  Lemma last_field_app args1 args2 n acc :
    last_field (args1 ++ args2) n acc = last_field args2 n (last_field args1 n acc).
  Proof.
    revert acc. induction args1 as [|[[m|] v] r IH]; intro acc; simpl; [reflexivity| |]; apply IH.
  Qed.
  Lemma last_global_app args1 args2 acc :
    last_global (args1 ++ args2) acc = last_global args2 (last_global args1 acc).
  Proof.
    revert acc. induction args1 as [|[[m|] v] r IH]; intro acc; simpl; [reflexivity| |]; apply IH.
  Qed.

  (* a later per-field value overrides an earlier one; a later global value overrides an earlier one *)
  Theorem tol_lookup_field_last args n v :
    tol_lookup (args ++ [(Some n, v)]) n = Some v.
  Proof. unfold tol_lookup. rewrite last_field_app. simpl. rewrite Nat.eqb_refl. reflexivity. Qed.

  Theorem tol_lookup_global_last args n v :
    last_field args n None = None -> tol_lookup (args ++ [(None, v)]) n = Some v.
  Proof.
    intro H. unfold tol_lookup. rewrite last_field_app, last_global_app. simpl. rewrite H. reflexivity.
  Qed.

  Theorem tol_lookup_default n : @tol_lookup V [] n = None.
  Proof. reflexivity. Qed.

  (* C04: a per-field tolerance for m cannot leak into the tolerance of any other field n *)
  Theorem tolerance_no_leak args1 args2 m n v :
    m <> n -> tol_lookup (args1 ++ (Some m, v) :: args2) n = tol_lookup (args1 ++ args2) n.
  Proof.
    intro H. unfold tol_lookup. rewrite !last_field_app, !last_global_app. simpl.
    destruct (m =? n) eqn:E; [apply Nat.eqb_eq in E; congruence|]. reflexivity.
  Qed.

  (* per-field values take precedence over the global value wherever it is placed *)
  Theorem field_overrides_global args n v :
    last_field args n None = Some v -> tol_lookup args n = Some v.
  Proof. intro H. unfold tol_lookup. rewrite H. reflexivity. Qed.
End TolLookup.

(* ------------------------------------------------------------------ sequences (C15) *)
Definition consistent (s : tsuite) : Prop := tsuite_bool s = true -> tests_ok (ts_tests s) = true.

Lemma tsuite_status_ok s : tstatus_ok (tsuite_status s) = tsuite_bool s.
Proof.
  unfold tsuite_status, tsuite_bool. destruct (ts_status s); [reflexivity|].
  destruct (tests_ok (ts_tests s)); reflexivity.
Qed.

Lemma merged_result_ok r1 r2 :
  match merged_result r1 r2 with Some st => tstatus_ok st | None => true end = tstatus_ok r1 && tstatus_ok r2.
Proof. destruct r1, r2; reflexivity. Qed.

Lemma merged_none r1 r2 : merged_result r1 r2 = None -> r1 = TPassed /\ r2 = TPassed.
Proof. destruct r1, r2; simpl; intro H; try discriminate; tauto. Qed.

Lemma tests_ok_app l1 l2 : tests_ok (l1 ++ l2) = tests_ok l1 && tests_ok l2.
Proof. unfold tests_ok. apply forallb_app. Qed.

Lemma merge_bool s1 s2 :
  consistent s1 -> consistent s2 ->
  tsuite_bool (merge_suites s1 s2) = tsuite_bool s1 && tsuite_bool s2 /\ consistent (merge_suites s1 s2).
Proof.
  intros C1 C2.
  pose proof (merged_result_ok (tsuite_status s1) (tsuite_status s2)) as M.
  rewrite !tsuite_status_ok in M.
  assert (E : tsuite_bool (merge_suites s1 s2) = tsuite_bool s1 && tsuite_bool s2).
  { unfold merge_suites. unfold tsuite_bool at 1. simpl.
    destruct (merged_result (tsuite_status s1) (tsuite_status s2)) as [st|] eqn:EM.
    - exact M.
    - symmetry in M. apply andb_true_iff in M. destruct M as [M1 M2].
      rewrite tests_ok_app, (C1 M1), (C2 M2), M1, M2. reflexivity. }
  split; [exact E|].
  unfold consistent. rewrite E. intro H. apply andb_true_iff in H. destruct H as [H1 H2].
  unfold merge_suites. simpl. rewrite tests_ok_app, (C1 H1), (C2 H2). reflexivity.
Qed.

(* once failed or errored, a merged suite stays false *)
Theorem merged_status_sticky s1 s2 :
  consistent s1 -> consistent s2 -> tsuite_bool s1 = false -> tsuite_bool (merge_suites s1 s2) = false.
Proof. intros C1 C2 H. destruct (merge_bool s1 s2 C1 C2) as [E _]. rewrite E, H. reflexivity. Qed.

Section Seq.
  Variable D : Type.
  Variable cmp : D -> D -> tsuite.
  Hypothesis cmp_consistent : forall a b, consistent (cmp a b).

  Lemma seq_loop_spec res : forall ref i acc,
    consistent acc ->
    let r := seq_loop cmp i acc res ref in
    tsuite_bool (fst r) = tsuite_bool acc && forallb (fun p => tsuite_bool (cmp (fst p) (snd p))) (combine res ref) /\
    snd r = seq i (min (length res) (length ref)) /\
    consistent (fst r).
  Proof.
    induction res as [|a res IH]; intros [|b ref] i acc Ca; simpl; try (rewrite andb_true_r; tauto).
    destruct (merge_bool acc (cmp a b) Ca (cmp_consistent a b)) as [Eb Cm].
    specialize (IH ref (S i) (merge_suites acc (cmp a b)) Cm).
    destruct (seq_loop cmp (S i) (merge_suites acc (cmp a b)) res ref) as [s idx]. simpl in *.
    destruct IH as [I1 [I2 I3]]. rewrite I1, Eb, I2. rewrite andb_assoc. tauto.
  Qed.

  (* C15: compared pairs are exactly the common prefix, each once and in order; pass iff every compared step
     passes and the lengths agree (or missing steps are ignored); forcing never turns a length mismatch into a pass *)
  Theorem seq_verdict ign force res ref :
    let r := compare_seq cmp ign force res ref in
    (tsuite_bool (fst r) = true <->
       (forall p, In p (combine res ref) -> tsuite_bool (cmp (fst p) (snd p)) = true) /\
       (length res = length ref \/ ign = true)) /\
    (snd r = seq 0 (min (length res) (length ref)) \/ (snd r = [] /\ length res <> length ref /\ ign = false /\ force = false)).
  Proof.
    unfold compare_seq. destruct (length res =? length ref) eqn:EL; simpl.
    - apply Nat.eqb_eq in EL.
      assert (C0 : consistent {| ts_status := None; ts_tests := [] |}) by (intro; reflexivity).
      destruct (seq_loop_spec res ref 0 _ C0) as [I1 [I2 _]]. split; [|left; exact I2].
      rewrite I1. simpl. rewrite forallb_forall. split; [intro H; split; [exact H | left; exact EL] | tauto].
    - apply Nat.eqb_neq in EL. destruct ign; simpl.
      + assert (C0 : consistent {| ts_status := None; ts_tests := [] |}) by (intro; reflexivity).
        destruct (seq_loop_spec res ref 0 _ C0) as [I1 [I2 _]]. split; [|left; exact I2].
        rewrite I1. simpl. rewrite forallb_forall. split; [intro H; split; [exact H | right; reflexivity] | tauto].
      + destruct force; simpl.
        * assert (C0 : consistent {| ts_status := Some TFailed; ts_tests := [] |}) by (intro H; discriminate H).
          destruct (seq_loop_spec res ref 0 _ C0) as [I1 [I2 _]]. split; [|left; exact I2].
          rewrite I1. simpl. split; [discriminate | intros [_ [H|H]]; [contradiction | discriminate]].
        * split; [|right; tauto]. split; [discriminate | intros [_ [H|H]]; [contradiction | discriminate]].
  Qed.

  Corollary force_still_fails ign res ref :
    length res <> length ref -> ign = false ->
    tsuite_bool (fst (compare_seq cmp ign true res ref)) = false /\
    snd (compare_seq cmp ign true res ref) = seq 0 (min (length res) (length ref)).
  Proof.
    intros HL Hi. destruct (seq_verdict ign true res ref) as [V I]. split.
    - destruct (tsuite_bool (fst (compare_seq cmp ign true res ref))) eqn:E; [|reflexivity].
      destruct (proj1 V eq_refl) as [_ [X|X]]; congruence.
    - destruct I as [I|[_ [_ [_ I]]]]; [exact I | discriminate].
  Qed.

  (* a sequence never compares equal to a single data set *)
  Theorem seq_vs_single_nonzero ign force a l :
    cli_file cmp ign force (RData a) (RSeq l) = 1 /\ cli_file cmp ign force (RSeq l) (RData a) = 1.
  Proof. split; reflexivity. Qed.
End Seq.

(* ------------------------------------------------------------------ the sequence cursor (C15) *)
Lemma skipn_cons_nth {A} (p : list A) : forall k, k < length p ->
  exists x, nth_error p k = Some x /\ skipn k p = x :: skipn (S k) p.
Proof.
  induction p as [|y r IH]; intros k Hk; simpl in Hk; [lia|].
  destruct k as [|k].
  - exists y. split; reflexivity.
  - destruct (IH k ltac:(lia)) as [x [H1 H2]]. exists x. split; [exact H1|]. exact H2.
Qed.

Lemma iter_loop_spec {A} (p : list A) : forall fuel c,
  c + fuel >= length p -> c < length p ->
  fst (iter_loop fuel {| pieces := p; cursor := c |}) = map Some (skipn (S c) p).
Proof.
  induction fuel as [|f IH]; intros c Hf Hc.
  - cbn [iter_loop fst]. rewrite skipn_all2 by lia. reflexivity.
  - cbn [iter_loop src_step pieces cursor].
    destruct (S c <? length p) eqn:E.
    + apply Nat.ltb_lt in E. specialize (IH (S c) ltac:(lia) E).
      destruct (iter_loop f {| pieces := p; cursor := S c |}) as [l s''] eqn:EL.
      cbn [fst] in *. rewrite IH. unfold src_get. cbn [pieces cursor].
      destruct (skipn_cons_nth p (S c) E) as [x [X1 X2]]. rewrite X1, X2. reflexivity.
    + apply Nat.ltb_ge in E. cbn [fst]. rewrite skipn_all2 by lia. reflexivity.
Qed.

(* C15: iterating yields every step exactly once and in order, whatever the cursor was before
   (partial earlier iteration, repeated iteration) *)
Theorem iter_all_in_order {A} (p : list A) c :
  p <> [] -> fst (iterate {| pieces := p; cursor := c |}) = map Some p.
Proof.
  intro H. unfold iterate, src_reset. cbn [pieces cursor].
  destruct p as [|x r]; [congruence|].
  pose proof (iter_loop_spec (x :: r) (length (x :: r)) 0 ltac:(lia) ltac:(simpl; lia)) as S.
  destruct (iter_loop (length (x :: r)) {| pieces := x :: r; cursor := 0 |}) as [l s'] eqn:E.
  cbn [fst] in *. rewrite S. reflexivity.
Qed.

Theorem iter_repeatable {A} (s : source A) :
  pieces s <> [] ->
  fst (iterate (snd (iterate s))) = fst (iterate s) /\ pieces (snd (iterate s)) = pieces s.
Proof.
  intro H. destruct s as [p c]. simpl in H.
  assert (P : forall fuel s0, pieces (snd (@iter_loop A fuel s0)) = pieces s0).
  { induction fuel as [|f IH]; intro s0; simpl; [reflexivity|].
    destruct (S (cursor s0) <? length (pieces s0)); simpl; [|reflexivity].
    specialize (IH {| pieces := pieces s0; cursor := S (cursor s0) |}).
    destruct (iter_loop f {| pieces := pieces s0; cursor := S (cursor s0) |}); simpl in *. exact IH. }
  assert (Q : pieces (snd (iterate {| pieces := p; cursor := c |})) = p).
  { unfold iterate, src_reset. cbn [pieces cursor]. specialize (P (length p) {| pieces := p; cursor := 0 |}).
    destruct (iter_loop (length p) {| pieces := p; cursor := 0 |}); cbn [snd pieces] in *. exact P. }
  split; [|exact Q].
  destruct (snd (iterate {| pieces := p; cursor := c |})) as [p' c'] eqn:E. simpl in Q. subst p'.
  rewrite !iter_all_in_order by exact H. reflexivity.
Qed.

(* ------------------------------------------------------------------ JUnit (C20) *)
Theorem junit_counts syn s :
  let j := junit_of syn s in
  j_tests j = length (j_cases j) /\
  j_failures j = length (filter (fun c => match snd c with [0] => true | _ => false end) (j_cases j)) /\
  j_errors j = length (filter (fun c => match snd c with [0; 1] => true | _ => false end) (j_cases j)) /\
  j_skipped j = length (filter (fun c => match snd c with [2] => true | _ => false end) (j_cases j)) /\
  map fst (j_cases j) = map fst (junit_tests syn s).
Proof.
  simpl. unfold count_status. rewrite map_length, map_map. simpl.
  repeat split; try reflexivity;
    induction (junit_tests syn s) as [|[n st] l IH]; simpl; try reflexivity; destruct st; simpl; rewrite IH; reflexivity.
Qed.

(* every test case of the suite appears in the report, in order; at most one synthetic case is appended *)
Theorem junit_cases_are_reports syn s :
  junit_tests syn s = ts_tests s \/
  (junit_tests syn s = ts_tests s ++ [(syn, tsuite_status s)] /\ tsuite_bool s = false /\ tests_ok (ts_tests s) = true).
Proof.
  unfold junit_tests. destruct (tsuite_bool s) eqn:B; simpl; [left; reflexivity|].
  destruct (tests_ok (ts_tests s)) eqn:T; [right; tauto | left; reflexivity].
Qed.

Lemma has_failure_tests l :
  existsb (fun c => existsb (fun tag => (tag =? 0) || (tag =? 1)) (snd c)) (map (fun t : nat * tstatus => (fst t, case_children (snd t))) l)
  = negb (tests_ok l).
Proof.
  unfold tests_ok. induction l as [|[n st] l IH]; simpl; [reflexivity|]. rewrite IH. destruct st; reflexivity.
Qed.

(* C20: the report contains a failure or error element exactly when the exit code is non-zero *)
Theorem junit_agrees_with_exit syn s :
  consistent s ->
  (junit_has_failure (junit_of syn s) = true <-> exit_code (tsuite_bool s) <> 0).
Proof.
  intro C. unfold junit_has_failure, junit_of. simpl j_cases. rewrite has_failure_tests.
  unfold junit_tests. destruct (tsuite_bool s) eqn:B; simpl.
  - rewrite (C B). simpl. split; [discriminate | congruence].
  - destruct (tests_ok (ts_tests s)) eqn:T; simpl.
    + rewrite tests_ok_app, T. simpl. unfold tests_ok. simpl. rewrite tsuite_status_ok, B. simpl. split; [discriminate | reflexivity].
    + rewrite T. simpl. split; [discriminate | reflexivity].
Qed.

Theorem junit_skipped_exact syn is ir S n st :
  dom_ok S = true -> In (n, st) (entries S) ->
  (In (n, [2]) (j_cases (junit_of syn (to_tsuite is ir S))) <->
   In (n, Filtered) (entries S) \/ (In (n, MissingSource) (entries S) /\ is = true) \/
   (In (n, MissingReference) (entries S) /\ ir = true)).
Proof.
  intros Hd _.
  assert (E : junit_tests syn (to_tsuite is ir S) = ts_tests (to_tsuite is ir S)).
  { unfold junit_tests, to_tsuite, tsuite_bool. rewrite Hd. simpl. destruct (tests_ok _); reflexivity. }
  unfold junit_of. simpl j_cases. rewrite E. unfold to_tsuite. rewrite Hd. simpl. rewrite map_map. simpl. rewrite in_map_iff. split.
  - intros [[m s'] [E' He]]. simpl in E'. inversion E'; subst.
    destruct s'; simpl in *; try discriminate; [destruct is; try discriminate; tauto | destruct ir; try discriminate; tauto | tauto].
  - intros [H|[[H Hi]|[H Hi]]]; [exists (n, Filtered) | exists (n, MissingSource) | exists (n, MissingReference)];
      simpl; subst; split; try exact H; reflexivity.
Qed.

(* ------------------------------------------------------------------ directory mode (C12) *)
Lemma memb_In n l : memb n l = true <-> In n l.
Proof.
  unfold memb. rewrite existsb_exists. split.
  - intros [x [H E]]. apply Nat.eqb_eq in E. subst. exact H.
  - intro H. exists n. split; [exact H | apply Nat.eqb_refl].
Qed.

Section Dir.
  Variables (consider supported mapped : nat -> bool) (src ref : list nat).
  Hypothesis NS : NoDup src.
  Hypothesis NR : NoDup ref.
  Let c := categorize consider supported mapped src ref.

  Definition all_classes (c : categories) : list nat :=
    to_compare c ++ missing_src c ++ missing_ref c ++ discarded c ++ unsupported c ++ discarded_orphans c.

  (* defining condition of each class *)
  Theorem categorize_spec p :
    (In p (to_compare c) <-> In p src /\ In p ref /\ consider p = true /\ (supported p = true \/ mapped p = true)) /\
    (In p (missing_src c) <-> ~ In p src /\ In p ref /\ consider p = true) /\
    (In p (missing_ref c) <-> In p src /\ ~ In p ref /\ consider p = true) /\
    (In p (discarded c) <-> In p src /\ In p ref /\ consider p = false) /\
    (In p (unsupported c) <-> In p src /\ In p ref /\ consider p = true /\ supported p = false /\ mapped p = false) /\
    (In p (discarded_orphans c) <-> ((In p src /\ ~ In p ref) \/ (~ In p src /\ In p ref)) /\ consider p = false).
  Proof.
    unfold c, categorize. simpl.
    repeat rewrite ?in_app_iff, ?filter_In, ?negb_true_iff.
    assert (M1 : memb p ref = true <-> In p ref) by apply memb_In.
    assert (M2 : memb p src = true <-> In p src) by apply memb_In.
    assert (M1' : memb p ref = false <-> ~ In p ref) by (rewrite <- M1; destruct (memb p ref); split; congruence).
    assert (M2' : memb p src = false <-> ~ In p src) by (rewrite <- M2; destruct (memb p src); split; congruence).
    destruct (consider p), (supported p), (mapped p); intuition congruence.
  Qed.

  Lemma NoDup_filter {A} (f : A -> bool) l : NoDup l -> NoDup (filter f l).
  Proof.
    induction l as [|x l IH]; simpl; intro H; [constructor|]. inversion H; subst.
    destruct (f x); [constructor; [rewrite filter_In; tauto | auto] | auto].
  Qed.

  (* C12: every file of either tree is accounted for in exactly one class *)
  Theorem categorize_partition :
    NoDup (all_classes c) /\ forall p, In p (all_classes c) <-> In p src \/ In p ref.
  Proof.
    split.
    - unfold all_classes.
      assert (S := categorize_spec).
      repeat (apply NoDup_app_iff_local;
              [ | | intros x H1 H2; repeat rewrite in_app_iff in H2;
                    destruct (S x) as [S1 [S2 [S3 [S4 [S5 S6]]]]];
                    rewrite ?S1, ?S2, ?S3, ?S4, ?S5, ?S6 in *; intuition congruence ]);
        unfold c, categorize; simpl;
        repeat first [ apply NoDup_filter; assumption | apply NoDup_filter ]; try assumption.
      + apply NoDup_app_iff_local; [apply NoDup_filter, NoDup_filter, NoDup_filter; exact NS | apply NoDup_filter, NoDup_filter, NoDup_filter, NoDup_filter; exact NS |].
        intros x H1 H2. rewrite !filter_In, ?negb_true_iff in *. intuition congruence.
      + apply NoDup_app_iff_local; [apply NoDup_filter, NoDup_filter; exact NR | apply NoDup_filter, NoDup_filter; exact NS |].
        intros x H1 H2. rewrite !filter_In, ?negb_true_iff in *.
        destruct H1 as [[H1 _] _]. destruct H2 as [[_ H2] _]. apply memb_In in H1. congruence.
    - intro p. unfold all_classes. repeat rewrite in_app_iff.
      destruct (categorize_spec p) as [S1 [S2 [S3 [S4 [S5 S6]]]]]. rewrite S1, S2, S3, S4, S5, S6.
      destruct (consider p), (supported p), (mapped p);
        destruct (in_dec Nat.eq_dec p src), (in_dec Nat.eq_dec p ref); intuition congruence.
  Qed.

  Variables (is_f ir_f : bool) (fc : nat -> fcres).

  (* C12: exit code 0 iff every compared file passes and one-sided files occur only where ignored *)
  Theorem dir_exit_iff :
    cli_dir is_f ir_f c fc = 0 <->
      (forall p, In p (to_compare c) -> exists t, fc p = FSuite t /\ tsuite_bool t = true) /\
      (missing_src c = [] \/ is_f = true) /\ (missing_ref c = [] \/ ir_f = true).
  Proof.
    unfold cli_dir. rewrite exit_code_zero. unfold dir_suites.
    rewrite !forallb_app, !andb_true_iff, !forallb_forall. split.
    - intros [H1 [H2 [H3 _]]]. split; [|split].
      + intros p Hp. specialize (H1 _ (in_map _ _ _ Hp)). simpl in H1.
        destruct (fc p) as [t|]; [exists t; tauto | discriminate].
      + destruct (missing_src c) as [|x l]; [left; reflexivity|]. right.
        specialize (H2 _ (in_map _ _ _ (in_eq x l))). destruct is_f; [reflexivity | discriminate].
      + destruct (missing_ref c) as [|x l]; [left; reflexivity|]. right.
        specialize (H3 _ (in_map _ _ _ (in_eq x l))). destruct ir_f; [reflexivity | discriminate].
    - intros [H1 [H2 H3]]. split; [|split; [|split; [|split]]]; intros x Hx; apply in_map_iff in Hx; destruct Hx as [p [E Hp]]; subst x; simpl.
      + destruct (H1 p Hp) as [t [E1 E2]]. rewrite E1. exact E2.
      + destruct H2 as [H2|H2]; [rewrite H2 in Hp; contradiction | subst; reflexivity].
      + destruct H3 as [H3|H3]; [rewrite H3 in Hp; contradiction | subst; reflexivity].
      + reflexivity.
      + reflexivity.
  Qed.

  (* C12: a comparison that raises is a failure *)
  Theorem exception_is_failure p : In p (to_compare c) -> fc p = FRaise -> cli_dir is_f ir_f c fc = 1.
  Proof.
    intros Hp Hf. destruct (cli_dir is_f ir_f c fc) as [|[|k]] eqn:E; [|reflexivity|].
    - apply dir_exit_iff in E. destruct E as [E _]. destruct (E p Hp) as [t [E1 _]]. congruence.
    - unfold cli_dir in E. destruct (forallb _ _); discriminate.
  Qed.

  (* C12: exactly one reported suite per path of the first five classes *)
  Theorem accounted_once :
    map fst (dir_suites is_f ir_f c fc) = to_compare c ++ missing_src c ++ missing_ref c ++ unsupported c ++ discarded c.
  Proof.
    unfold dir_suites. rewrite !map_app, !map_map. simpl. rewrite !map_id. reflexivity.
  Qed.
End Dir.
