(* Proofs/DiffIntP.v — C14, integer fields: in which type the difference is computed (finding F-C14a). *)
From Coq Require Import ZArith Bool Lia.
From FC Require Import Model.Scalar Model.Diff.
Local Open Scope Z_scope.

Ltac Zify.zify_post_hook ::= Z.to_euclidean_division_equations.

(* the repaired difference is the exact one for every pair of values of a type of at most 32 bits, signed or unsigned, and
   for signed 64-bit values whose difference fits 64 bits *)
Theorem int_diff_fixed_exact_narrow : forall w sgn a b,
  0 < w <= 32 -> in_int_range w sgn a -> in_int_range w sgn b -> int_diff_fixed a b = a - b.
Proof.
  intros w sgn a b Hw Ha Hb. unfold int_diff_fixed, wrap.
  assert (P : 2 ^ w <= 2 ^ 32) by (apply Z.pow_le_mono_r; lia).
  assert (P1 : 0 < 2 ^ (w - 1) <= 2 ^ w).
  { split; [apply Z.pow_pos_nonneg; lia|]. apply Z.pow_le_mono_r; lia. }
  change (2 ^ 32) with 4294967296 in P.
  change (2 ^ 64) with 18446744073709551616. change (2 ^ (64 - 1)) with 9223372036854775808.
  assert (R : - 8589934592 < a - b < 8589934592).
  { unfold in_int_range in Ha, Hb. destruct sgn; lia. }
  destruct (Z.ltb_spec ((a - b) mod 18446744073709551616) 9223372036854775808) as [H|H]; lia.
Qed.

Theorem int_diff_fixed_exact_int64 : forall a b,
  - 2 ^ 63 <= a - b < 2 ^ 63 -> int_diff_fixed a b = a - b.
Proof.
  intros a b H. unfold int_diff_fixed, wrap.
  change (2 ^ 64) with 18446744073709551616. change (2 ^ (64 - 1)) with 9223372036854775808.
  change (2 ^ 63) with 9223372036854775808 in H.
  destruct (Z.ltb_spec ((a - b) mod 18446744073709551616) 9223372036854775808) as [H'|H']; lia.
Qed.

(* finding F-C14a: in the fields' own type the difference of two values of the type is in general not reference - source *)
Theorem int_diff_pinned_refuted :
  in_int_range 8 false 51 /\ in_int_range 8 false 200 /\ int_diff_pinned 8 false 51 200 = 107 /\ int_diff_fixed 51 200 = -149 /\
  in_int_range 8 true (-128) /\ in_int_range 8 true 5 /\ int_diff_pinned 8 true (-128) 5 = 123 /\ int_diff_fixed (-128) 5 = -133.
Proof. unfold in_int_range. cbn. repeat split; try lia; reflexivity. Qed.
