(* Proofs/DiffP.v — C14 *)
From Coq Require Import QArith Arith Bool List Lia Permutation.
From FC Require Import Model.Compare Model.Diff Proofs.CompareP.
Import ListNotations.
Local Open Scope nat_scope.

Lemma names_as_field l : names (map as_field l) = map fst l.
Proof. unfold names. rewrite map_map. reflexivity. Qed.

Lemma combine_nth_min {A B} (la : list A) (lb : list B) i da db :
  i < min (length la) (length lb) -> nth i (combine la lb) (da, db) = (nth i la da, nth i lb db).
Proof.
  revert lb i. induction la as [|a la IH]; intros [|b lb] i H; simpl in *; try lia.
  destruct i as [|i]; [reflexivity|]. apply IH. lia.
Qed.

(* C14: for a field present on both sides, entry i of the difference is reference[i] - source[i] *)
Theorem sub_padded_values n refv srcv i :
  i < min (length refv) (length srcv) ->
  nth i (sub_padded n refv srcv) None = Some (nth i refv 0%Q - nth i srcv 0%Q)%Q.
Proof.
  intro H. unfold sub_padded. rewrite app_nth1 by (rewrite map_length, combine_length; exact H).
  assert (E : forall (l : list (Q * Q)) j, j < length l ->
              nth j (map (fun p => Some (fst p - snd p)%Q) l) None = Some (fst (nth j l (0%Q, 0%Q)) - snd (nth j l (0%Q, 0%Q)))%Q).
  { induction l as [|x l IHl]; intros [|j] Hj; simpl in *; try lia; [reflexivity | apply IHl; lia]. }
  rewrite E by (rewrite combine_length; exact H). rewrite combine_nth_min by exact H. reflexivity.
Qed.

Lemma NoDup_app_r_local {A} (a b : list A) : NoDup (a ++ b) -> NoDup b.
Proof. induction a as [|x a IH]; simpl; intro H; [exact H|]. inversion H; subst. apply IH. assumption. Qed.

Lemma nth_repeat_none {A} (x d : A) n i : i < n -> nth i (repeat x n) d = x.
Proof. revert i. induction n as [|n IH]; intros [|i] H; simpl; try lia; [reflexivity | apply IH; lia]. Qed.

Theorem sub_padded_beyond n refv srcv i :
  min (length refv) (length srcv) <= i -> i < n -> nth i (sub_padded n refv srcv) (Some 0%Q) = None.
Proof.
  intros H1 H2. unfold sub_padded. rewrite app_nth2 by (rewrite map_length, combine_length; exact H1).
  rewrite map_length, combine_length. apply nth_repeat_none. lia.
Qed.

Theorem sub_padded_length n refv srcv : min (length refv) (length srcv) <= n -> length (sub_padded n refv srcv) = n.
Proof. intro H. unfold sub_padded. rewrite app_length, map_length, combine_length, repeat_length. lia. Qed.

(* C14: the difference data names every field of either side exactly once *)
Theorem diff_table_names sr rr src ref :
  NoDup (map fst src) -> NoDup (map fst ref) ->
  NoDup (map fst (diff_table sr rr src ref)) /\
  forall n, In n (map fst (diff_table sr rr src ref)) <-> In n (map fst src) \/ In n (map fst ref).
Proof.
  intros NS NR. unfold diff_table.
  set (q := find_matches (map as_field ref) (map as_field src)).
  assert (NS' : NoDup (names (map as_field src))) by (rewrite names_as_field; exact NS).
  assert (NR' : NoDup (names (map as_field ref))) by (rewrite names_as_field; exact NR).
  destruct (find_matches_partition (map as_field ref) (map as_field src) NR' NS') as [P1 [P2 P3]]. fold q in P1, P2, P3.
  rewrite !map_app, !map_map. simpl.
  assert (E1 : map (fun x : field * field => fname (fst x)) (matches q) = names (map fst (matches q))) by (unfold names; rewrite map_map; reflexivity).
  assert (Pref : Permutation (map fst ref) (names (map fst (matches q)) ++ names (orph_src q))).
  { rewrite <- names_as_field. unfold names at 1. rewrite (Permutation_map fname P1). rewrite map_app. apply Permutation_refl. }
  assert (Psrc : Permutation (map fst src) (names (map fst (matches q)) ++ names (orph_ref q))).
  { rewrite <- names_as_field. rewrite P2. rewrite E1. apply Permutation_refl. }
  rewrite E1. fold (names (orph_src q)). fold (names (orph_ref q)).
  split.
  - (* NoDup: matched ++ ref-only is a permutation of ref names; src-only names are not in ref *)
    rewrite app_assoc. apply NoDup_app_iff_local.
    + apply (Permutation_NoDup Pref). exact NR.
    + assert (X : NoDup (names (map fst (matches q)) ++ names (orph_ref q))) by (apply (Permutation_NoDup Psrc); exact NS).
      apply NoDup_app_r_local in X. exact X.
    + intros n H1 H2.
      assert (Hr : In n (map fst ref)) by (apply (Permutation_in _ (Permutation_sym Pref)); exact H1).
      (* n is a source-only name: by the matching characterisation it is not a reference name *)
      destruct (fm_src (map as_field ref) (map as_field src) NR' NS') as [_ [_ [I3 _]]]. fold q in I3.
      rewrite I3 in H2. unfold names in H2. rewrite in_map_iff in H2. destruct H2 as [f [Ef Hf]].
      apply filter_In in Hf. destruct Hf as [_ Hf]. apply negb_true_iff in Hf. apply has_false in Hf.
      apply Hf. rewrite Ef. rewrite names_as_field. exact Hr.
  - intro n. rewrite !in_app_iff. split.
    + intros [H|[H|H]].
      * right. apply (Permutation_in _ (Permutation_sym Pref)). apply in_or_app. left. exact H.
      * right. apply (Permutation_in _ (Permutation_sym Pref)). apply in_or_app. right. exact H.
      * left. apply (Permutation_in _ (Permutation_sym Psrc)). apply in_or_app. right. exact H.
    + intros [H|H].
      * apply (Permutation_in _ Psrc) in H. apply in_app_or in H. tauto.
      * apply (Permutation_in _ Pref) in H. apply in_app_or in H. tauto.
Qed.

(* C14: identical values on both sides give an all-zero difference (what --diff writes for data sets that are equal
   up to reordering, after both sides were brought to the same canonical order) *)
Theorem diff_zero_if_equal (v : list Q) :
  Forall (fun d => match d with Some x => (x == 0)%Q | None => False end) (sub_padded (length v) v v).
Proof.
  unfold sub_padded. rewrite Nat.min_id, Nat.sub_diag. simpl. rewrite app_nil_r.
  induction v as [|x v IH]; simpl; constructor; [ring | exact IH].
Qed.
