(* Proofs/GlobBracket2P.v — a bracket expression between two plain texts ("step_[0-9].vtu", "run[12]/out.csv"): exactly the names
   made of the prefix, one admitted character, and the suffix. *)
From Coq Require Import NArith Arith List Bool Lia.
From FC Require Import Model.Glob Proofs.GlobP Proofs.GlobBracketP.
Import ListNotations.
Local Open Scope N_scope.

Lemma translate_go_plain_fuel r : forall f, plain r = true -> (length r < f)%nat -> translate_go f r = map TLit r.
Proof.
  intros f Hp Hf.
  pose proof (translate_go_plain r [] (f - 1) Hp) as E. cbn [length] in E. rewrite app_nil_r in E.
  replace (f - 1 + 1)%nat with f in E by lia. rewrite E by lia. rewrite translate_go_nil, app_nil_r. reflexivity.
Qed.

Lemma translate_go_lb f rest : translate_go (S f) (c_lb :: rest) =
  match closing rest with
  | None => TLit c_lb :: translate_go f rest
  | Some j => bracket (firstn j rest) :: translate_go f (skipn (S j) rest)
  end.
Proof. reflexivity. Qed.

Lemma translate_bracket_then stuff r : closing (stuff ++ c_rb :: r) = Some (length stuff) -> plain r = true ->
  translate (c_lb :: stuff ++ c_rb :: r) = bracket stuff :: map TLit r.
Proof.
  intros H Hp. unfold translate. cbn [length]. rewrite translate_go_lb.
  rewrite H. rewrite firstn_app, firstn_all, Nat.sub_diag. cbn [firstn]. rewrite app_nil_r.
  replace (skipn (S (length stuff)) (stuff ++ c_rb :: r)) with r.
  - rewrite translate_go_plain_fuel; [reflexivity|exact Hp|]. rewrite app_length. cbn [length]. lia.
  - change (stuff ++ c_rb :: r) with (stuff ++ [c_rb] ++ r). rewrite app_assoc.
    rewrite skipn_app. replace (length (stuff ++ [c_rb])) with (S (length stuff)) by (rewrite app_length; cbn [length]; lia).
    rewrite skipn_all2 by (rewrite app_length; cbn [length]; lia). rewrite Nat.sub_diag. reflexivity.
Qed.

Lemma find_from_0_rest c : forall l r, ~ In c l -> find_from c (l ++ c :: r) 0 = Some (length l).
Proof. exact (find_from_0 c). Qed.

Lemma closing_plain_then x stuff r : x <> c_bang -> x <> c_rb -> ~ In c_rb stuff ->
  closing ((x :: stuff) ++ c_rb :: r) = Some (length (x :: stuff)).
Proof.
  intros Hb Hr Hn. unfold closing. cbn [app nth_error].
  apply N.eqb_neq in Hb, Hr. rewrite Hb. cbn [nth_error]. rewrite Hr.
  change (x :: stuff ++ c_rb :: r) with ((x :: stuff) ++ c_rb :: r). apply find_from_0.
  intros [H|H]; [apply N.eqb_neq in Hr; contradiction|contradiction].
Qed.

Lemma tmatch_prefix_set_suffix l neg sg rg r s :
  tmatch (map TLit l ++ TSet neg sg rg :: map TLit r) s = true <-> exists x, s = l ++ x :: r /\ in_set neg sg rg x = true.
Proof.
  rewrite tmatch_lits. split.
  - intros [H1 H2]. destruct (skipn (length l) s) as [|x rest] eqn:E; cbn [tmatch] in H2; [discriminate|].
    apply andb_prop in H2. destruct H2 as [Hx Hr].
    rewrite <- (app_nil_r (map TLit r)) in Hr. apply tmatch_lits in Hr. destruct Hr as [Hr1 Hr2].
    exists x. split; [|exact Hx]. rewrite <- (firstn_skipn (length l) s), H1, E. f_equal. f_equal.
    destruct (skipn (length r) rest) as [|y t] eqn:E2; [|discriminate].
    rewrite <- (firstn_skipn (length r) rest), Hr1, E2, app_nil_r. reflexivity.
  - intros [x [-> H]]. split.
    + rewrite firstn_app, firstn_all, Nat.sub_diag. cbn [firstn]. apply app_nil_r.
    + rewrite skipn_app, skipn_all, Nat.sub_diag. cbn [skipn app tmatch]. rewrite H. cbn [andb].
      rewrite <- (app_nil_r (map TLit r)). apply tmatch_lits. split; [apply firstn_all|]. rewrite skipn_all. reflexivity.
Qed.

(* "<plain>[a-c]<plain>" *)
Theorem bracket_range_between l a c r s :
  plain l = true -> plain r = true -> a <> c_bang -> a <> c_rb -> c <> c_rb -> a <= c ->
  (fnmatch s (l ++ c_lb :: [a; c_dash; c] ++ c_rb :: r) = true <-> exists y, s = l ++ y :: r /\ a <= y <= c).
Proof.
  intros Hp Hpr Hb Hr Hcr Hle. unfold fnmatch. rewrite (translate_plain_app l _ Hp).
  rewrite (translate_bracket_then [a; c_dash; c] r).
  - rewrite (bracket_range a c Hb Hle), tmatch_prefix_set_suffix.
    split; intros [y [E H]]; exists y; (split; [exact E|]).
    + rewrite in_set_range in H. apply andb_prop in H. destruct H as [H1 H2]. apply N.leb_le in H1, H2. split; assumption.
    + rewrite in_set_range. destruct H as [H1 H2]. apply N.leb_le in H1, H2. rewrite H1, H2. reflexivity.
  - apply closing_plain_then; [exact Hb|exact Hr|]. intros [H|[H|[]]]; [discriminate H|apply Hcr; exact H].
  - exact Hpr.
Qed.

(* "<plain>[abc]<plain>" *)
Theorem bracket_set_between l x stuff r s :
  plain l = true -> plain r = true -> x <> c_bang -> x <> c_rb -> ~ In c_rb stuff -> ~ In c_dash (x :: stuff) ->
  (fnmatch s (l ++ c_lb :: (x :: stuff) ++ c_rb :: r) = true <-> exists y, s = l ++ y :: r /\ In y (x :: stuff)).
Proof.
  intros Hp Hpr Hb Hr Hn Hd. unfold fnmatch. rewrite (translate_plain_app l _ Hp).
  rewrite (translate_bracket_then (x :: stuff) r (closing_plain_then x stuff r Hb Hr Hn) Hpr).
  rewrite (bracket_plain x stuff Hb) by (apply has_false_iff; exact Hd). rewrite tmatch_prefix_set_suffix.
  split; intros [y [E H]]; exists y; (split; [exact E|]).
  - rewrite in_set_plain in H. apply has_true_iff. exact H.
  - rewrite in_set_plain. apply has_true_iff. exact H.
Qed.

(* "step_[0-9].vtu" *)
Example bracket_between_examples :
  let pat := [115; 95; c_lb; 48; c_dash; 57; c_rb; 46; 118] in    (* "s_[0-9].v" *)
  fnmatch [115; 95; 52; 46; 118] pat = true /\ fnmatch [115; 95; 97; 46; 118] pat = false /\
  fnmatch [115; 95; 52; 46] pat = false /\ fnmatch [115; 95; 52; 52; 46; 118] pat = false.
Proof. vm_compute. repeat split; reflexivity. Qed.
