(* Proofs/ComposeP.v — C08: ANY sequence of reordering steps conserves the collection of (cell type, ordered corner
   coordinates) — by induction over the sequence, no bound on its length. *)
From Coq Require Import QArith Arith Bool List Lia Permutation.
From FC Require Import Model.Scalar Model.Mesh Model.Compose Proofs.MeshP.
Import ListNotations.
Local Open Scope nat_scope.

Lemma valid_cell_maps_sound : forall bl k, valid_cell_maps bl k = true ->
  Forall2 (fun b kb => Permutation kb (seq 0 (length (snd b)))) bl k.
Proof.
  induction bl as [|b bl IH]; intros [|kb k] H; cbn [valid_cell_maps] in H; try discriminate.
  - constructor.
  - apply andb_prop in H. destruct H as [H1 H2]. constructor; [apply is_perm_sound; exact H1|apply IH; exact H2].
Qed.

Lemma step_geometry M o M' : step M o = Some M' -> Permutation (cell_geometry M') (cell_geometry M).
Proof.
  destruct o as [p|k|]; cbn [step]; intros H.
  - rewrite (permute_points_geometry M p M' H). apply Permutation_refl.
  - destruct (valid_cell_maps (cells M) k) eqn:E; [|discriminate]. inversion H; subst.
    apply permute_cells_geometry. apply valid_cell_maps_sound. exact E.
  - rewrite (permute_points_geometry M _ M' H). apply Permutation_refl.
Qed.

Theorem run_geometry : forall ops M M', run M ops = Some M' -> Permutation (cell_geometry M') (cell_geometry M).
Proof.
  induction ops as [|o ops IH]; intros M M' H; cbn [run] in H.
  - inversion H; subst. apply Permutation_refl.
  - destruct (step M o) as [M1|] eqn:E; [|discriminate].
    eapply Permutation_trans; [apply IH; exact H|apply step_geometry with (o := o); exact E].
Qed.

(* sequences compose: running ops1 then ops2 is running ops1 ++ ops2 *)
Lemma run_app : forall ops1 ops2 M, run M (ops1 ++ ops2) = match run M ops1 with Some M1 => run M1 ops2 | None => None end.
Proof.
  induction ops1 as [|o ops1 IH]; intros ops2 M; cbn [app run]; [reflexivity|].
  destruct (step M o) as [M1|]; [apply IH|reflexivity].
Qed.

(* stripping is always possible on a mesh whose corners name points, and keeps exactly the referenced points *)
Theorem strip_step_defined M : wf_mesh M ->
  exists M', step M OStrip = Some M' /\ length (pts M') = length (strip_map M).
Proof.
  intros Hwf. destruct (inverse_defined_on_used M (strip_map M)) as [M' HM'].
  - intros i Hi. apply strip_exact. split; [apply Hwf; exact Hi|exact Hi].
  - exists M'. split; [exact HM'|]. cbn [step] in HM'. unfold permute_points in HM'.
    destruct (map_blocks (strip_map M) (cells M)); [|discriminate]. inversion HM'; subst. cbn [pts].
    unfold gather. apply map_length.
Qed.
