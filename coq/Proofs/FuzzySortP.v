(* Proofs/FuzzySortP.v — with noise far below the tolerance, ANY two arrangements that meet the sorting specification are
   pointwise within tolerance (C02, noisy case). *)
From Coq Require Import QArith ZArith Arith Bool List Lia Permutation Sorted.
From FC Require Import Model.Scalar Model.Mesh Model.SortSpec Model.FuzzySort Proofs.ScalarP Proofs.SortP.
Import ListNotations.

(* the cluster index is a monotone function of the coordinate: sorting by value and sorting by class are consistent *)
Lemma kappa_monotone bs u v : (u <= v)%Q -> (kappa bs u <= kappa bs v)%Z.
Proof.
  intro H. unfold kappa. apply inj_le. induction bs as [|b bs IH]; simpl; [lia|].
  destruct (Qle_bool b u) eqn:E1.
  - apply Qle_bool_iff in E1. assert (E2 : Qle_bool b v = true) by (apply Qle_bool_iff; eapply Qle_trans; eauto).
    rewrite E2. simpl. lia.
  - destruct (Qle_bool b v); simpl; lia.
Qed.

Lemma insert_z_perm x l : Permutation (insert_z x l) (x :: l).
Proof.
  induction l as [|y r IH]; simpl; [apply Permutation_refl|].
  destruct (lex_ltb y x); [|apply Permutation_refl].
  eapply Permutation_trans; [apply perm_skip; exact IH | apply perm_swap].
Qed.

Lemma sort_z_perm l : Permutation (sort_z l) l.
Proof.
  induction l as [|x l IH]; simpl; [constructor|].
  eapply Permutation_trans; [apply insert_z_perm | apply perm_skip; exact IH].
Qed.

Lemma zlist_eqb_eq a : forall b, zlist_eqb a b = true -> a = b.
Proof.
  induction a as [|x a IH]; intros [|y b] H; simpl in H; try discriminate; [reflexivity|].
  apply andb_true_iff in H. destruct H as [H1 H2]. apply zpoint_eqb_eq in H1. apply IH in H2. congruence.
Qed.

Lemma same_multiset_perm a b : same_multiset a b = true -> Permutation a b.
Proof.
  intro H. apply zlist_eqb_eq in H.
  eapply Permutation_trans; [apply Permutation_sym, sort_z_perm|]. rewrite H. apply sort_z_perm.
Qed.

Lemma sep_points_ok_spec bss rel abs l1 l2 :
  sep_points_ok bss rel abs l1 l2 = true ->
  forall p q, In p l1 -> In q l2 -> cls bss p = cls bss q -> point_close rel abs p q = true.
Proof.
  unfold sep_points_ok. rewrite forallb_forall. intros H p q Hp Hq E.
  specialize (H p Hp). rewrite forallb_forall in H. specialize (H q Hq).
  assert (X : zpoint_eqb (cls bss p) (cls bss q) = true) by (apply zpoint_eqb_eq; exact E).
  rewrite X in H. exact H.
Qed.

Lemma points_close_of_classes bss rel abs l1 : forall l2,
  map (cls bss) l1 = map (cls bss) l2 ->
  (forall p q, In p l1 -> In q l2 -> cls bss p = cls bss q -> point_close rel abs p q = true) ->
  points_close rel abs l1 l2 = true.
Proof.
  induction l1 as [|p l1 IH]; intros [|q l2] E H; simpl in E; try discriminate; [reflexivity|].
  inversion E as [[E1 E2]]. simpl. rewrite (H p q (or_introl eq_refl) (or_introl eq_refl) E1). simpl.
  apply IH; [exact E2|]. intros p' q' Hp Hq. apply H; right; assumption.
Qed.

(* C02 (noisy case): two arrangements of nearly-coincident point sets, each with strictly increasing class vectors, whose
   class vectors form the same collection, are within tolerance of each other POINT BY POINT — whatever sorting strategy
   produced them. *)
Theorem noisy_sorted_points_close bss rel abs v1 v2 :
  sorted_strict (map (cls bss) v1) = true -> sorted_strict (map (cls bss) v2) = true ->
  Permutation (map (cls bss) v1) (map (cls bss) v2) ->
  (forall p q, In p v1 -> In q v2 -> cls bss p = cls bss q -> point_close rel abs p q = true) ->
  points_close rel abs v1 v2 = true.
Proof.
  intros S1 S2 P H. apply (points_close_of_classes bss); [|exact H].
  apply sorted_points_unique; assumption.
Qed.

(* what the run-time check establishes *)
Theorem check_noisy_sorted_sound bss rel abs v1 v2 :
  check_noisy_sorted bss rel abs v1 v2 = true -> points_close rel abs v1 v2 = true.
Proof.
  unfold check_noisy_sorted. rewrite !andb_true_iff. intros [[[S1 S2] M] Sep].
  apply (noisy_sorted_points_close bss); [exact S1 | exact S2 | apply same_multiset_perm; exact M | apply sep_points_ok_spec; exact Sep].
Qed.
