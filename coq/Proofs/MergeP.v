(* Proofs/MergeP.v — theorems about the piece merger (Model/Merge.v), for all inputs. *)
From Coq Require Import ZArith Bool Arith List Lia Permutation Sorted.
From FC Require Import Model.Merge.
Import ListNotations.
Local Open Scope nat_scope.

(* ================================================================================================ *)
(* 1. _map_external_indices / _filter_external_indices                                              *)
(* ================================================================================================ *)

Definition fresh (d : dict) (i : nat) : bool := negb (dict_mem i d).

Lemma filter_ext_eq : forall n d, filter_ext n d = filter (fresh d) (seq 0 n).
Proof. reflexivity. Qed.

Lemma map_ext_aux_length : forall k d off i cnt, length (map_ext_aux d off i cnt k) = k.
Proof.
  induction k as [|k IH]; intros d off i cnt; simpl; [reflexivity|].
  destruct (dict_get i d); simpl; rewrite IH; reflexivity.
Qed.

Lemma map_ext_length : forall n d off, length (map_ext n d off) = n.
Proof. intros. apply map_ext_aux_length. Qed.

(* duplicates go to the dict's target *)
Lemma map_ext_aux_dup : forall k d off i cnt j t,
  j < k -> dict_get (i + j) d = Some t -> nth j (map_ext_aux d off i cnt k) 0 = t.
Proof.
  induction k as [|k IH]; intros d off i cnt j t Hj Hg; [lia|].
  simpl. destruct j as [|j].
  - rewrite Nat.add_0_r in Hg. rewrite Hg. reflexivity.
  - destruct (dict_get i d); simpl; apply IH; try lia; replace (S i + j) with (i + S j) by lia; exact Hg.
Qed.

Theorem map_ext_dup : forall n d off j t,
  j < n -> dict_get j d = Some t -> nth j (map_ext n d off) 0 = t.
Proof. intros. unfold map_ext. apply map_ext_aux_dup; assumption. Qed.

Lemma fresh_get_none : forall d i, fresh d i = true <-> dict_get i d = None.
Proof.
  intros d i. unfold fresh, dict_mem. destruct (dict_get i d); simpl; split; intro H; congruence.
Qed.

(* the fresh indices, in increasing order, are sent to consecutive numbers *)
Lemma map_ext_aux_fresh : forall k d off i cnt,
  cnt <= i ->
  map (fun j => nth (j - i) (map_ext_aux d off i cnt k) 0) (filter (fresh d) (seq i k))
  = seq (i + off - cnt) (length (filter (fresh d) (seq i k))).
Proof.
  induction k as [|k IH]; intros d off i cnt Hc; [reflexivity|].
  change (seq i (S k)) with (i :: seq (S i) k).
  change (filter (fresh d) (i :: seq (S i) k))
    with (if fresh d i then i :: filter (fresh d) (seq (S i) k) else filter (fresh d) (seq (S i) k)).
  change (map_ext_aux d off i cnt (S k))
    with (match dict_get i d with
          | Some t => t :: map_ext_aux d off (S i) (S cnt) k
          | None => (i + off - cnt) :: map_ext_aux d off (S i) cnt k end).
  assert (Htl : forall l x,
     map (fun j => nth (j - i) (x :: l) 0) (filter (fresh d) (seq (S i) k))
     = map (fun j => nth (j - S i) l 0) (filter (fresh d) (seq (S i) k))).
  { intros l x. apply map_ext_in. intros j Hj. apply filter_In in Hj. destruct Hj as [Hj _].
    apply in_seq in Hj. replace (j - i) with (S (j - S i)) by lia. reflexivity. }
  destruct (fresh d i) eqn:Hf.
  - apply fresh_get_none in Hf. rewrite Hf.
    change (length (i :: filter (fresh d) (seq (S i) k))) with (S (length (filter (fresh d) (seq (S i) k)))).
    change (seq (i + off - cnt) (S (length (filter (fresh d) (seq (S i) k)))))
      with ((i + off - cnt) :: seq (S (i + off - cnt)) (length (filter (fresh d) (seq (S i) k)))).
    rewrite map_cons. rewrite Nat.sub_diag. rewrite Htl. rewrite IH by lia.
    cbn [nth]. f_equal. f_equal. lia.
  - destruct (dict_get i d) eqn:Hg.
    + rewrite Htl. rewrite IH by lia. reflexivity.
    + apply fresh_get_none in Hg. congruence.
Qed.

(* ext_maps_bijection: the fresh points of the later piece (filter_ext, increasing) are mapped, in order, onto
   offset, offset+1, ..., offset + #fresh - 1; every duplicate is mapped to its partner in the merged mesh *)
Theorem ext_maps_bijection : forall n d off,
  map (fun j => nth j (map_ext n d off) 0) (filter_ext n d) = seq off (length (filter_ext n d))
  /\ (forall j t, j < n -> dict_get j d = Some t -> nth j (map_ext n d off) 0 = t)
  /\ length (map_ext n d off) = n.
Proof.
  intros n d off. split; [|split].
  - rewrite filter_ext_eq. unfold map_ext.
    pose proof (map_ext_aux_fresh n d off 0 0 (Nat.le_refl 0)) as H.
    replace (0 + off - 0) with off in H by lia.
    rewrite <- H. apply map_ext_in. intros j _. rewrite Nat.sub_0_r. reflexivity.
  - intros. apply map_ext_dup; assumption.
  - apply map_ext_length.
Qed.

(* position of a fresh index among the fresh ones *)
Definition rank (d : dict) (j : nat) : nat := length (filter (fresh d) (seq 0 j)).

Lemma filter_seq_split : forall (f : nat -> bool) n j, j <= n ->
  filter f (seq 0 n) = filter f (seq 0 j) ++ filter f (seq j (n - j)).
Proof.
  intros f n j Hj. replace n with (j + (n - j)) at 1 by lia. rewrite seq_app, filter_app. reflexivity.
Qed.

Theorem map_ext_fresh : forall n d off j,
  j < n -> dict_get j d = None ->
  nth j (map_ext n d off) 0 = off + rank d j /\ nth (rank d j) (filter_ext n d) 0 = j /\ rank d j < length (filter_ext n d).
Proof.
  intros n d off j Hj Hg.
  assert (Hf : fresh d j = true) by (apply fresh_get_none; exact Hg).
  assert (Hsplit : filter_ext n d = filter (fresh d) (seq 0 j) ++ j :: filter (fresh d) (seq (S j) (n - S j))).
  { rewrite filter_ext_eq. rewrite (filter_seq_split _ n j) by lia.
    f_equal. replace (n - j) with (S (n - S j)) by lia. simpl. rewrite Hf. reflexivity. }
  assert (Hnth : nth (rank d j) (filter_ext n d) 0 = j).
  { rewrite Hsplit. unfold rank. rewrite app_nth2 by lia. rewrite Nat.sub_diag. reflexivity. }
  assert (Hlt : rank d j < length (filter_ext n d)).
  { rewrite Hsplit. unfold rank. rewrite app_length. simpl. lia. }
  split; [|split]; try assumption.
  destruct (ext_maps_bijection n d off) as [Hb _].
  apply (f_equal (fun l => nth (rank d j) l 0)) in Hb.
  rewrite seq_nth in Hb by exact Hlt.
  rewrite <- Hb.
  set (f := fun j0 => nth j0 (map_ext n d off) 0).
  rewrite (nth_indep (map f (filter_ext n d)) 0 (f 0)) by (rewrite map_length; exact Hlt).
  rewrite (map_nth f). rewrite Hnth. reflexivity.
Qed.

(* ================================================================================================ *)
(* 2. lexicographic order on points                                                                 *)
(* ================================================================================================ *)

Lemma lex_lt_irrefl : forall p, lex_lt p p = false.
Proof. induction p as [|x p IH]; simpl; [reflexivity|]. rewrite Z.ltb_irrefl. exact IH. Qed.

Lemma point_eqb_eq : forall p q, point_eqb p q = true <-> p = q.
Proof.
  induction p as [|x p IH]; destruct q as [|y q]; simpl; split; intro H; try reflexivity; try discriminate.
  - apply andb_true_iff in H. destruct H as [H1 H2]. apply Z.eqb_eq in H1. apply IH in H2. congruence.
  - inversion H; subst. rewrite Z.eqb_refl. simpl. apply IH. reflexivity.
Qed.

Lemma lex_trichotomy : forall p q,
  length p = length q -> lex_lt p q = false -> lex_lt q p = false -> p = q.
Proof.
  induction p as [|x p IH]; destruct q as [|y q]; simpl; intros Hl H1 H2; try discriminate; [reflexivity|].
  destruct (x <? y)%Z eqn:E1; [discriminate|]. destruct (y <? x)%Z eqn:E2; [discriminate|].
  assert (x = y) by lia. subst. f_equal. apply IH; [lia|assumption..].
Qed.

Lemma lex_lt_trans : forall p q r, lex_lt p q = true -> lex_lt q r = true -> lex_lt p r = true.
Proof.
  induction p as [|x p IH]; destruct q as [|y q]; destruct r as [|z r]; simpl; intros H1 H2; try discriminate.
  destruct (x <? y)%Z eqn:E1; destruct (y <? x)%Z eqn:E2; destruct (y <? z)%Z eqn:E3; destruct (z <? y)%Z eqn:E4;
  destruct (x <? z)%Z eqn:E5; destruct (z <? x)%Z eqn:E6; try reflexivity; try discriminate; try lia.
  eapply IH; eassumption.
Qed.

Lemma lex_lt_asym : forall p q, lex_lt p q = true -> lex_lt q p = false.
Proof.
  intros p q H. destruct (lex_lt q p) eqn:E; [|reflexivity].
  pose proof (lex_lt_trans _ _ _ H E) as Hc. rewrite lex_lt_irrefl in Hc. discriminate.
Qed.

(* a <= b (i.e. not b < a), b < t  ==>  a < t *)
Lemma lex_le_lt_trans : forall a b t, length a = length b ->
  lex_lt b a = false -> lex_lt b t = true -> lex_lt a t = true.
Proof.
  intros a b t Hl Hle Hlt. destruct (lex_lt a b) eqn:E.
  - eapply lex_lt_trans; eassumption.
  - assert (a = b) by (apply lex_trichotomy; assumption). subst. exact Hlt.
Qed.

(* ================================================================================================ *)
(* 3. lex_argsort: a sorting permutation                                                            *)
(* ================================================================================================ *)

Definition idx_le (pts : list point) (a b : nat) : Prop := lex_lt (pt pts b) (pt pts a) = false.

Lemma insert_idx_perm : forall pts i l, Permutation (i :: l) (insert_idx pts i l).
Proof.
  induction l as [|j l IH]; simpl; [apply Permutation_refl|].
  destruct (lex_lt (pt pts j) (pt pts i)); [|apply Permutation_refl].
  eapply Permutation_trans; [apply perm_swap|]. apply perm_skip. exact IH.
Qed.

Lemma argsort_perm_gen : forall pts l, Permutation l (fold_right (insert_idx pts) [] l).
Proof.
  induction l as [|i l IH]; simpl; [apply Permutation_refl|].
  eapply Permutation_trans; [apply perm_skip; exact IH|]. apply insert_idx_perm.
Qed.

Theorem lex_argsort_perm : forall pts, Permutation (seq 0 (length pts)) (lex_argsort pts).
Proof. intros. apply argsort_perm_gen. Qed.

Definition same_dim (dim : nat) (pts : list point) : Prop := forall p, In p pts -> length p = dim.

Lemma pt_dim : forall dim pts i, same_dim dim pts -> i < length pts -> length (pt pts i) = dim.
Proof. intros dim pts i H Hi. apply H. unfold pt. apply nth_In. exact Hi. Qed.

Lemma insert_idx_sorted : forall dim pts i l,
  same_dim dim pts -> i < length pts -> Forall (fun x => x < length pts) l ->
  StronglySorted (idx_le pts) l -> StronglySorted (idx_le pts) (insert_idx pts i l).
Proof.
  intros dim pts i l Hd Hi. induction l as [|j l IH]; intros Hall Hs; simpl.
  - constructor; constructor.
  - inversion Hall as [|? ? Hj Hall']; subst. inversion Hs as [|? ? Hs' Hf]; subst.
    destruct (lex_lt (pt pts j) (pt pts i)) eqn:E.
    + constructor; [apply IH; assumption|].
      apply Forall_forall. intros x Hx.
      apply (Permutation_in _ (Permutation_sym (insert_idx_perm pts i l))) in Hx.
      destruct Hx as [Hx|Hx].
      * subst x. unfold idx_le. apply lex_lt_asym. exact E.
      * rewrite Forall_forall in Hf. apply Hf. exact Hx.
    + constructor; [exact Hs|]. constructor; [exact E|].
      apply Forall_forall. intros x Hx. rewrite Forall_forall in Hf. specialize (Hf x Hx).
      rewrite Forall_forall in Hall'. specialize (Hall' x Hx).
      unfold idx_le in *. destruct (lex_lt (pt pts x) (pt pts i)) eqn:E2; [|reflexivity].
      (* j <= x and x < i give j < i *)
      assert (Hc : lex_lt (pt pts j) (pt pts i) = true).
      { apply (lex_le_lt_trans (pt pts j) (pt pts x)); try assumption.
        rewrite (pt_dim dim pts j), (pt_dim dim pts x); auto. }
      congruence.
Qed.

Lemma argsort_sorted_gen : forall dim pts l,
  same_dim dim pts -> Forall (fun x => x < length pts) l ->
  StronglySorted (idx_le pts) (fold_right (insert_idx pts) [] l).
Proof.
  intros dim pts l Hd. induction l as [|i l IH]; intro Hall; simpl; [constructor|].
  inversion Hall; subst.
  eapply insert_idx_sorted; try eassumption.
  - apply Forall_forall. intros x Hx.
    apply (Permutation_in _ (Permutation_sym (argsort_perm_gen pts l))) in Hx.
    rewrite Forall_forall in H2. auto.
  - apply IH. assumption.
Qed.

Theorem lex_argsort_sorted : forall dim pts,
  same_dim dim pts -> StronglySorted (idx_le pts) (lex_argsort pts).
Proof.
  intros dim pts Hd. eapply argsort_sorted_gen; [eassumption|].
  apply Forall_forall. intros x Hx. apply in_seq in Hx. lia.
Qed.

Lemma StronglySorted_nth : forall (A : Type) (R : A -> A -> Prop) (l : list A) (d : A),
  StronglySorted R l -> forall a b, a < b -> b < length l -> R (nth a l d) (nth b l d).
Proof.
  intros A R l d Hs. induction Hs as [|x l Hs IH Hf]; intros a b Hab Hb; simpl in Hb; [lia|].
  destruct b as [|b]; [lia|]. destruct a as [|a].
  - simpl. rewrite Forall_forall in Hf. apply Hf. apply nth_In. lia.
  - simpl. apply IH; lia.
Qed.

(* ================================================================================================ *)
(* 4. _find_candidate: the bisection returns the lower bound                                        *)
(* ================================================================================================ *)

Section Bisect.
  Variables (dim : nat) (pts : list point) (sorted : list nat) (target : point).
  Let n := length pts.
  Let P (k : nat) : point := pt pts (nth k sorted 0).
  Hypothesis Hdim : same_dim dim pts.
  Hypothesis Hlen : length sorted = n.
  Hypothesis Hrange : forall k, k < n -> nth k sorted 0 < n.
  Hypothesis Hsorted : forall a b, a <= b -> b < n -> lex_lt (P b) (P a) = false.

  Lemma bisect_spec : forall fuel lower upper,
    upper - lower <= fuel -> lower <= upper -> upper <= n ->
    (forall k, k < lower -> lex_lt (P k) target = true) ->
    (forall k, upper <= k -> k < n -> lex_lt (P k) target = false) ->
    bisect fuel sorted pts target lower upper <= n
    /\ (forall k, k < bisect fuel sorted pts target lower upper -> lex_lt (P k) target = true)
    /\ (forall k, bisect fuel sorted pts target lower upper <= k -> k < n -> lex_lt (P k) target = false).
  Proof.
    induction fuel as [|f IH]; intros lower upper Hf Hlu Hun Hlow Hup.
    - simpl. assert (upper = lower) by lia. subst. split; [lia|split; assumption].
    - cbn [bisect]. destruct (lower <? upper) eqn:Elt.
      + apply Nat.ltb_lt in Elt.
        assert (Hmid : lower <= (lower + upper) / 2 /\ (lower + upper) / 2 < upper).
        { pose proof (Nat.div_mod (lower + upper) 2 ltac:(lia)) as Hdm.
          pose proof (Nat.mod_upper_bound (lower + upper) 2 ltac:(lia)). lia. }
        set (mid := (lower + upper) / 2) in *. destruct Hmid as [Hm1 Hm2].
        fold (P mid).
        destruct (lex_lt (P mid) target) eqn:Em.
        * apply IH; try lia; try assumption.
          intros k Hk. destruct (Nat.lt_ge_cases k lower) as [Hkl|Hkl]; [apply Hlow; exact Hkl|].
          (* P k <= P mid < target *)
          apply (lex_le_lt_trans (P k) (P mid)); try assumption.
          -- unfold P. rewrite (pt_dim dim pts), (pt_dim dim pts); auto; apply Hrange; lia.
          -- apply Hsorted; lia.
        * apply IH; try lia; try assumption.
          intros k Hk Hkn. destruct (lex_lt (P k) target) eqn:Ek; [|reflexivity].
          assert (Hc : lex_lt (P mid) target = true).
          { apply (lex_le_lt_trans (P mid) (P k)); try assumption.
            - unfold P. rewrite (pt_dim dim pts), (pt_dim dim pts); auto; apply Hrange; lia.
            - apply Hsorted; lia. }
          congruence.
      + apply Nat.ltb_ge in Elt. assert (upper = lower) by lia. subst.
        split; [lia|split; assumption].
  Qed.

  Lemma find_candidate_bound : forall c, find_candidate sorted pts target = Some c -> c < n.
  Proof.
    unfold find_candidate. fold n. intros c H.
    destruct (bisect n sorted pts target 0 n <? n) eqn:E; [|discriminate].
    apply Nat.ltb_lt in E. inversion H; subst. apply Hrange. exact E.
  Qed.

  Lemma find_candidate_found : forall j,
    NoDup pts -> j < n -> In j sorted -> pt pts j = target ->
    find_candidate sorted pts target = Some j.
  Proof.
    intros j Hnd Hj Hin Hpt.
    destruct (In_nth sorted j 0 Hin) as [kj [Hkj Hnth]]. rewrite Hlen in Hkj.
    destruct (bisect_spec n 0 n) as [Hlo [Hbelow Habove]]; try lia.
    unfold find_candidate. fold n. set (lo := bisect n sorted pts target 0 n) in *.
    assert (Hlk : lo <= kj).
    { destruct (Nat.lt_ge_cases kj lo) as [Hc|Hc]; [|exact Hc].
      specialize (Hbelow kj Hc). unfold P in Hbelow. rewrite Hnth, Hpt, lex_lt_irrefl in Hbelow. discriminate. }
    assert (Hlon : lo < n) by lia.
    apply Nat.ltb_lt in Hlon. rewrite Hlon. apply Nat.ltb_lt in Hlon.
    f_equal.
    assert (Heq : P lo = target).
    { apply lex_trichotomy.
      - unfold P. rewrite (pt_dim dim pts) by (auto; apply Hrange; lia). rewrite <- Hpt.
        symmetry. apply (pt_dim dim pts); assumption.
      - apply Habove; lia.
      - pose proof (Hsorted lo kj Hlk Hkj) as Hs. unfold P in Hs at 1. rewrite Hnth, Hpt in Hs. exact Hs. }
    unfold P in Heq. rewrite <- Hpt in Heq. unfold pt in Heq.
    apply (proj1 (NoDup_nth pts []) Hnd) in Heq; [exact Heq| |exact Hj].
    apply Hrange. exact Hlon.
  Qed.
End Bisect.

(* ================================================================================================ *)
(* 5. Python dict semantics and _map_duplicate_points                                               *)
(* ================================================================================================ *)

Lemma dict_get_first_in : forall k d v, dict_get_first k d = Some v -> In (k, v) d.
Proof.
  induction d as [|[k' v'] d IH]; simpl; intros v H; [discriminate|].
  destruct (k' =? k) eqn:E.
  - apply Nat.eqb_eq in E. inversion H; subst. left. reflexivity.
  - right. apply IH. exact H.
Qed.

Lemma dict_get_first_some : forall k d v, In (k, v) d -> exists v', dict_get_first k d = Some v'.
Proof.
  induction d as [|[k' v'] d IH]; simpl; intros v H; [contradiction|].
  destruct (k' =? k) eqn:E; [eexists; reflexivity|].
  destruct H as [H|H]; [inversion H; subst; rewrite Nat.eqb_refl in E; discriminate|].
  eapply IH. exact H.
Qed.

Lemma dict_get_in : forall k d v, dict_get k d = Some v -> In (k, v) d.
Proof. unfold dict_get. intros k d v H. apply in_rev. apply dict_get_first_in. exact H. Qed.

Lemma dict_get_unique : forall k d v,
  (forall v', In (k, v') d -> v' = v) -> In (k, v) d -> dict_get k d = Some v.
Proof.
  intros k d v Hu Hin. unfold dict_get.
  destruct (dict_get_first_some k (rev d) v) as [v' Hv']; [apply in_rev; rewrite rev_involutive; exact Hin|].
  rewrite Hv'. f_equal. apply Hu. apply in_rev. apply dict_get_first_in. exact Hv'.
Qed.

Lemma dict_get_none : forall k d, (forall v, ~ In (k, v) d) -> dict_get k d = None.
Proof.
  intros k d H. destruct (dict_get k d) eqn:E; [|reflexivity].
  apply dict_get_in in E. exfalso. eapply H. exact E.
Qed.

Section DupMap.
  Variables (dim : nat) (src tgt : list point).
  Hypothesis Hds : same_dim dim src.
  Hypothesis Hns : NoDup src.

  Let n := length src.
  Let sorted := lex_argsort src.

  Lemma argsort_length : length sorted = n.
  Proof. unfold sorted, n. rewrite <- (Permutation_length (lex_argsort_perm src)). apply seq_length. Qed.

  Lemma argsort_in : forall j, j < n -> In j sorted.
  Proof.
    intros j Hj. apply (Permutation_in _ (lex_argsort_perm src)). apply in_seq. unfold n in Hj. lia.
  Qed.

  Lemma argsort_range : forall k, k < n -> nth k sorted 0 < n.
  Proof.
    intros k Hk.
    assert (Hin : In (nth k sorted 0) sorted) by (apply nth_In; rewrite argsort_length; exact Hk).
    apply (Permutation_in _ (Permutation_sym (lex_argsort_perm src))) in Hin. apply in_seq in Hin. unfold n. lia.
  Qed.

  Lemma argsort_sorted_nth : forall a b, a <= b -> b < n ->
    lex_lt (pt src (nth b sorted 0)) (pt src (nth a sorted 0)) = false.
  Proof.
    intros a b Hab Hb. destruct (Nat.eq_dec a b) as [->|Hne]; [apply lex_lt_irrefl|].
    apply (StronglySorted_nth nat (idx_le src) sorted 0 (lex_argsort_sorted dim src Hds) a b); [lia|].
    rewrite argsort_length. exact Hb.
  Qed.

  (* the pairs of the duplicate map are exactly the coinciding (source, target) points *)
  Lemma in_dup_map : forall c i,
    In (c, i) (dup_map src tgt) <-> i < length tgt /\ c < n /\ pt src c = pt tgt i.
  Proof.
    intros c i. unfold dup_map, dup_pairs_from. fold sorted. rewrite in_flat_map. split.
    - intros [i' [Hi' Hin]]. apply in_seq in Hi'.
      destruct (find_candidate sorted src (pt tgt i')) as [c'|] eqn:Ef; [|contradiction].
      destruct (point_eqb (pt src c') (pt tgt i')) eqn:Ee; [|contradiction].
      destruct Hin as [Hin|[]]. inversion Hin; subst c' i'.
      apply point_eqb_eq in Ee. split; [lia|]. split; [|exact Ee].
      eapply find_candidate_bound; [apply argsort_range|exact Ef].
    - intros [Hi [Hc Heq]]. exists i. split; [apply in_seq; lia|].
      rewrite (find_candidate_found dim src sorted (pt tgt i) Hds argsort_length argsort_range
                 argsort_sorted_nth c Hns Hc (argsort_in c Hc) Heq).
      apply point_eqb_eq in Heq. rewrite Heq. left. reflexivity.
  Qed.

  Hypothesis Hnt : NoDup tgt.

  (* dup_map_correct: index j of the later piece is mapped to index i of the merged mesh iff the two points
     coincide (exactly) *)
  Theorem dup_map_correct : forall j i, j < length src -> i < length tgt ->
    (dict_get j (dup_map src tgt) = Some i <-> pt src j = pt tgt i).
  Proof.
    intros j i Hj Hi. split.
    - intro H. apply dict_get_in in H. apply in_dup_map in H. tauto.
    - intro Heq. apply dict_get_unique.
      + intros v' Hv'. apply in_dup_map in Hv'. destruct Hv' as [Hv1 [_ Hv2]].
        rewrite Heq in Hv2. unfold pt in Hv2.
        apply (proj1 (NoDup_nth tgt []) Hnt) in Hv2; auto.
      + apply in_dup_map. auto.
  Qed.

  Lemma dup_map_get : forall j i, dict_get j (dup_map src tgt) = Some i ->
    j < length src /\ i < length tgt /\ pt tgt i = pt src j.
  Proof. intros j i H. apply dict_get_in in H. apply in_dup_map in H. unfold n in H. intuition. Qed.

  Lemma dup_map_mem : forall j, j < length src ->
    (dict_mem j (dup_map src tgt) = true <-> In (pt src j) tgt).
  Proof.
    intros j Hj. unfold dict_mem. split.
    - destruct (dict_get j (dup_map src tgt)) as [i|] eqn:E; [|discriminate]. intros _.
      apply dup_map_get in E. destruct E as [_ [Hi He]]. rewrite <- He. apply nth_In. exact Hi.
    - intro Hin. destruct (In_nth tgt (pt src j) [] Hin) as [i [Hi He]].
      assert (H : dict_get j (dup_map src tgt) = Some i) by (apply dup_map_correct; auto).
      rewrite H. reflexivity.
  Qed.
End DupMap.

(* ================================================================================================ *)
(* 6. association lists                                                                             *)
(* ================================================================================================ *)

Lemma alookup_app : forall (A : Type) k (l l' : list (nat * A)),
  alookup k (l ++ l') = match alookup k l with Some a => Some a | None => alookup k l' end.
Proof.
  induction l as [|[k' a] l IH]; intro l'; simpl; [reflexivity|].
  destruct (k' =? k); [reflexivity|apply IH].
Qed.

Lemma alookup_in : forall (A : Type) k (l : list (nat * A)) a, alookup k l = Some a -> In (k, a) l.
Proof.
  induction l as [|[k' a'] l IH]; simpl; intros a H; [discriminate|].
  destruct (k' =? k) eqn:E.
  - apply Nat.eqb_eq in E. inversion H; subst. left; reflexivity.
  - right. apply IH. exact H.
Qed.

Lemma alookup_none_in : forall (A : Type) k (l : list (nat * A)) a, alookup k l = None -> ~ In (k, a) l.
Proof.
  induction l as [|[k' a'] l IH]; simpl; intros a H Hin; [contradiction|].
  destruct (k' =? k) eqn:E; [discriminate|].
  destruct Hin as [Hin|Hin]; [inversion Hin; subst; rewrite Nat.eqb_refl in E; discriminate|].
  eapply IH; eassumption.
Qed.

Lemma alookup_merge_assoc : forall (A : Type) (both : A -> A -> A) (only1 only2 : A -> A) l1 l2 k,
  alookup k (merge_assoc both only1 only2 l1 l2) =
  match alookup k l1, alookup k l2 with
  | Some a, Some b => Some (both a b)
  | Some a, None => Some (only1 a)
  | None, Some b => Some (only2 b)
  | None, None => None
  end.
Proof.
  intros A both only1 only2 l1 l2 k. unfold merge_assoc. rewrite alookup_app.
  assert (H1 : alookup k (map (fun ka : nat * A => match alookup (fst ka) l2 with
                                       | Some b => (fst ka, both (snd ka) b)
                                       | None => (fst ka, only1 (snd ka)) end) l1)
               = match alookup k l1 with
                 | Some a => match alookup k l2 with Some b => Some (both a b) | None => Some (only1 a) end
                 | None => None end).
  { induction l1 as [|[k' a] l1 IH]; simpl; [reflexivity|].
    destruct (alookup k' l2) eqn:E2; simpl; destruct (k' =? k) eqn:E; try apply IH;
      apply Nat.eqb_eq in E; subst k'; rewrite E2; reflexivity. }
  rewrite H1. destruct (alookup k l1) as [a|] eqn:E1.
  - destruct (alookup k l2); reflexivity.
  - assert (Hm : amem k l1 = false) by (unfold amem; rewrite E1; reflexivity).
    clear H1. induction l2 as [|[k' b] l2 IH]; simpl; [reflexivity|].
    destruct (k' =? k) eqn:E.
    + apply Nat.eqb_eq in E. subst k'. rewrite Hm. simpl. rewrite Nat.eqb_refl. reflexivity.
    + destruct (negb (amem k' l1)); simpl; [rewrite E|]; apply IH.
Qed.

Lemma in_merge_assoc : forall (A : Type) (both : A -> A -> A) (only1 only2 : A -> A) l1 l2 k v,
  In (k, v) (merge_assoc both only1 only2 l1 l2) ->
  (exists a, In (k, a) l1 /\ match alookup k l2 with Some b => v = both a b | None => v = only1 a end)
  \/ (exists b, In (k, b) l2 /\ v = only2 b).
Proof.
  intros A both only1 only2 l1 l2 k v H. unfold merge_assoc in H. apply in_app_or in H. destruct H as [H|H].
  - left. apply in_map_iff in H. destruct H as [[k' a] [He Hin]]. simpl in He.
    destruct (alookup k' l2) eqn:E; inversion He; subst; exists a; rewrite E; auto.
  - right. apply in_map_iff in H. destruct H as [[k' b] [He Hin]]. simpl in He. inversion He; subst.
    apply filter_In in Hin. exists b. tauto.
Qed.

Lemma aget_merge_assoc_app : forall (X : Type) (f : list X -> list X) (l1 l2 : list (nat * list X)) k,
  f [] = [] ->
  aget k (merge_assoc (fun r1 r2 => r1 ++ f r2) (fun r => r) f l1 l2) = aget k l1 ++ f (aget k l2).
Proof.
  intros X f l1 l2 k Hf. unfold aget. rewrite alookup_merge_assoc.
  destruct (alookup k l1), (alookup k l2); simpl; try rewrite Hf; try rewrite app_nil_r; reflexivity.
Qed.

(* ================================================================================================ *)
(* 7. selections                                                                                    *)
(* ================================================================================================ *)

Lemma select_nth : forall (X : Type) (d : X) idx (l : list X) k,
  k < length idx -> nth k (select d idx l) d = nth (nth k idx 0) l d.
Proof.
  intros X d idx l k Hk. unfold select.
  rewrite (nth_indep _ d (nth 0 l d)) by (rewrite map_length; exact Hk).
  rewrite (map_nth (fun i => nth i l d)). reflexivity.
Qed.

Lemma select_length : forall (X : Type) (d : X) idx (l : list X), length (select d idx l) = length idx.
Proof. intros. apply map_length. Qed.

(* selecting the indices that pass an index test = filtering the list by the corresponding element test *)
Lemma select_filter_gen : forall (X : Type) (d : X) (g : X -> bool) (f : nat -> bool) (l : list X) (s : nat) (pre : list X),
  (forall i, i < length l -> f (s + i) = g (nth i l d)) -> length pre = s ->
  select d (filter f (seq s (length l))) (pre ++ l) = filter g l.
Proof.
  intros X d g f l. induction l as [|x l IH]; intros s pre Hfg Hs; [reflexivity|].
  simpl length. simpl seq. simpl filter.
  assert (H0 : f s = g x). { specialize (Hfg 0 ltac:(simpl; lia)). rewrite Nat.add_0_r in Hfg. exact Hfg. }
  assert (Hrec : select d (filter f (seq (S s) (length l))) (pre ++ x :: l) = filter g l).
  { replace (pre ++ x :: l) with ((pre ++ [x]) ++ l) by (rewrite <- app_assoc; reflexivity).
    apply IH.
    - intros i Hi. specialize (Hfg (S i) ltac:(simpl; lia)). simpl in Hfg. rewrite <- Hfg. f_equal. lia.
    - rewrite app_length. simpl. lia. }
  rewrite H0. destruct (g x).
  - unfold select at 1. rewrite map_cons. fold (select d (filter f (seq (S s) (length l))) (pre ++ x :: l)).
    rewrite Hrec. f_equal. rewrite app_nth2 by lia. rewrite Hs, Nat.sub_diag. reflexivity.
  - exact Hrec.
Qed.

Lemma select_filter : forall (X : Type) (d : X) (g : X -> bool) (f : nat -> bool) (l : list X),
  (forall i, i < length l -> f i = g (nth i l d)) ->
  select d (filter f (seq 0 (length l))) l = filter g l.
Proof. intros. apply (select_filter_gen X d g f l 0 []); auto. Qed.

Lemma select_map : forall (X Y : Type) (dx : X) (dy : Y) (h : X -> Y) idx (l : list X),
  (forall i, In i idx -> i < length l) ->
  select dy idx (map h l) = map h (select dx idx l).
Proof.
  intros X Y dx dy h idx l Hr. unfold select. rewrite map_map. apply map_ext_in. intros i Hi.
  rewrite (nth_indep _ dy (h dx)) by (rewrite map_length; apply Hr; exact Hi). apply map_nth.
Qed.

Lemma select_combine : forall (X Y : Type) (dx : X) (dy : Y) idx (l : list X) (r : list Y),
  length l = length r ->
  select (dx, dy) idx (combine l r) = combine (select dx idx l) (select dy idx r).
Proof.
  intros X Y dx dy idx l r Hl. unfold select. induction idx as [|i idx IH]; simpl; [reflexivity|].
  rewrite IH. f_equal. apply combine_nth. exact Hl.
Qed.

Lemma NoDup_app_intro : forall (X : Type) (l l' : list X),
  NoDup l -> NoDup l' -> (forall x, In x l -> ~ In x l') -> NoDup (l ++ l').
Proof.
  intros X l l' Hl Hl' Hd. induction Hl as [|x l Hx Hl IH]; simpl; [exact Hl'|].
  constructor.
  - intro Hin. apply in_app_or in Hin. destruct Hin as [Hin|Hin]; [contradiction|].
    apply (Hd x); [left; reflexivity|exact Hin].
  - apply IH. intros y Hy. apply Hd. right. exact Hy.
Qed.

Lemma combine_app_eq : forall (X Y : Type) (l1 l2 : list X) (r1 r2 : list Y),
  length l1 = length r1 -> combine (l1 ++ l2) (r1 ++ r2) = combine l1 r1 ++ combine l2 r2.
Proof.
  intros X Y l1. induction l1 as [|x l1 IH]; intros l2 r1 r2 Hl; destruct r1 as [|y r1]; simpl in *; try discriminate; [reflexivity|].
  f_equal. apply IH. lia.
Qed.

(* ================================================================================================ *)
(* 8. _merge without the early return conserves both pieces                                         *)
(* ================================================================================================ *)

Definition mem_pt (p : point) (l : list point) : bool := existsb (point_eqb p) l.

Lemma mem_pt_in : forall p l, mem_pt p l = true <-> In p l.
Proof.
  intros p l. unfold mem_pt. rewrite existsb_exists. split.
  - intros [q [Hq He]]. apply point_eqb_eq in He. subst. exact Hq.
  - intro H. exists p. split; [exact H|]. apply point_eqb_eq. reflexivity.
Qed.

Definition not_in (l : list point) (p : point) : bool := negb (mem_pt p l).

Section Merge2.
  Variable V : Type.
  Variable zero : V.
  Variables (dim : nat) (A B : mf V).
  Hypothesis HA : wf dim A.
  Hypothesis HB : wf dim B.

  Let d := dup_map (pts B) (pts A).
  Let n1 := length (pts A).
  Let n2 := length (pts B).
  Let flt := filter_ext n2 d.
  Let pm := map_ext n2 d n1.
  Let M := merge2_fixed zero A B.

  Let HdA : same_dim dim (pts A) := proj1 (proj2 HA).
  Let HdB : same_dim dim (pts B) := proj1 (proj2 HB).
  Let HnA : NoDup (pts A) := proj1 HA.
  Let HnB : NoDup (pts B) := proj1 HB.

  Lemma flt_range : forall i, In i flt -> i < n2.
  Proof. intros i H. unfold flt, filter_ext in H. apply filter_In in H. destruct H as [H _]. apply in_seq in H. lia. Qed.

  Lemma fresh_not_in : forall j, j < n2 -> fresh d j = not_in (pts A) (pt (pts B) j).
  Proof.
    intros j Hj. unfold fresh, not_in. f_equal.
    pose proof (dup_map_mem dim (pts B) (pts A) HdB HnB HnA j Hj) as H. fold d in H.
    destruct (dict_mem j d) eqn:E1; destruct (mem_pt (pt (pts B) j) (pts A)) eqn:E2; try reflexivity.
    - assert (Hin : In (pt (pts B) j) (pts A)) by (apply H; reflexivity).
      apply mem_pt_in in Hin. congruence.
    - apply mem_pt_in in E2. apply H in E2. congruence.
  Qed.

  Lemma pts_M_select : pts M = pts A ++ select [] flt (pts B).
  Proof. reflexivity. Qed.

  (* the merged points: those of A, then the points of B that are not in A, in B's order *)
  Lemma pts_M : pts M = pts A ++ filter (not_in (pts A)) (pts B).
  Proof.
    rewrite pts_M_select. f_equal. unfold flt, filter_ext. fold (fresh d).
    change (fun i => negb (dict_mem i d)) with (fresh d).
    apply select_filter. intros i Hi. apply fresh_not_in. exact Hi.
  Qed.

  Lemma pm_spec : forall c, c < n2 ->
    nth c pm 0 < length (pts M) /\ pt (pts M) (nth c pm 0) = pt (pts B) c.
  Proof.
    intros c Hc. rewrite pts_M_select. rewrite app_length, select_length. fold n1.
    destruct (dict_get c d) as [t|] eqn:Eg.
    - assert (Ht : nth c pm 0 = t) by (apply map_ext_dup; assumption).
      destruct (dup_map_get dim (pts B) (pts A) HdB HnB c t Eg) as [_ [Hlt He]].
      rewrite Ht. split; [unfold n1; lia|].
      unfold pt at 1. rewrite app_nth1 by exact Hlt. exact He.
    - destruct (map_ext_fresh n2 d n1 c Hc Eg) as [H1 [H2 H3]]. fold pm in H1. fold flt in H2, H3.
      rewrite H1. split; [lia|].
      unfold pt at 1. rewrite app_nth2 by (fold n1; lia). fold n1.
      replace (n1 + rank d c - n1) with (rank d c) by lia.
      rewrite select_nth by exact H3. rewrite H2. reflexivity.
  Qed.

  Lemma pt_M_left : forall c, c < n1 -> pt (pts M) c = pt (pts A) c.
  Proof. intros c Hc. rewrite pts_M_select. unfold pt. apply app_nth1. exact Hc. Qed.

  Lemma rows_A : forall ct, rows_in_range n1 (aget ct (cells A)).
  Proof.
    intros ct. unfold aget. destruct (alookup ct (cells A)) as [rows|] eqn:E.
    - apply alookup_in in E. pose proof HA as [_ [_ Hr]]. apply (Hr ct rows E).
    - intros r c [].
  Qed.

  Lemma rows_B : forall ct, rows_in_range n2 (aget ct (cells B)).
  Proof.
    intros ct. unfold aget. destruct (alookup ct (cells B)) as [rows|] eqn:E.
    - apply alookup_in in E. pose proof HB as [_ [_ Hr]]. apply (Hr ct rows E).
    - intros r c [].
  Qed.

  Lemma cells_M : forall ct, aget ct (cells M) = aget ct (cells A) ++ remap pm (aget ct (cells B)).
  Proof. intro ct. unfold M, merge2_fixed. cbn [cells]. apply aget_merge_assoc_app. reflexivity. Qed.

  (* every cell of both pieces is present once, in order, with its corner COORDINATES preserved *)
  Theorem merge2_cells : forall ct, ccells ct M = ccells ct A ++ ccells ct B.
  Proof.
    intro ct. unfold ccells. rewrite cells_M, map_app. f_equal.
    - apply map_ext_in. intros r Hr. apply map_ext_in. intros c Hc.
      apply pt_M_left. apply (rows_A ct r c Hr Hc).
    - unfold remap. rewrite map_map. apply map_ext_in. intros r Hr. rewrite map_map.
      apply map_ext_in. intros c Hc. apply pm_spec. apply (rows_B ct r c Hr Hc).
  Qed.

  (* ... and with its cell data *)
  Theorem merge2_cdata : forall ct name, cfield ct name M = cfield ct name A ++ cfield ct name B.
  Proof.
    intros ct name. unfold cfield, M, merge2_fixed. cbn [cdata]. rewrite alookup_merge_assoc.
    destruct (alookup ct (cdata A)) as [a|], (alookup ct (cdata B)) as [b|]; simpl;
      try rewrite app_nil_r; try reflexivity.
    apply (aget_merge_assoc_app V (fun r => r)). reflexivity.
  Qed.

  (* points: the union, shared coordinates once *)
  Theorem merge2_points : NoDup (pts M) /\ same_dim dim (pts M) /\
    (forall p, In p (pts M) <-> In p (pts A) \/ In p (pts B)).
  Proof.
    rewrite pts_M. split; [|split].
    - apply NoDup_app_intro; [exact HnA|apply NoDup_filter; exact HnB|].
      intros p Hp Hq. apply filter_In in Hq. destruct Hq as [_ Hq]. unfold not_in in Hq.
      apply mem_pt_in in Hp. rewrite Hp in Hq. discriminate.
    - intros p Hp. apply in_app_or in Hp. destruct Hp as [Hp|Hp]; [apply HdA; exact Hp|].
      apply filter_In in Hp. apply HdB. tauto.
    - intro p. rewrite in_app_iff, filter_In. split.
      + tauto.
      + intros [Hp|Hp]; [left; exact Hp|].
        destruct (mem_pt p (pts A)) eqn:E.
        * left. apply mem_pt_in. exact E.
        * right. split; [exact Hp|]. unfold not_in. rewrite E. reflexivity.
  Qed.

  Theorem merge2_wf : wf dim M.
  Proof.
    destruct merge2_points as [Hn [Hd _]]. split; [exact Hn|]. split; [exact Hd|].
    intros ct rows Hin. unfold M, merge2_fixed in Hin. cbn [cells] in Hin. fold d n2 n1 pm in Hin.
    assert (HlenM : n1 <= length (pts M)) by (rewrite pts_M_select, app_length; fold n1; lia).
    assert (HA' : forall a, In (ct, a) (cells A) -> rows_in_range (length (pts M)) a).
    { intros a Ha r c Hr Hc. pose proof HA as [_ [_ Hra]]. specialize (Hra ct a Ha r c Hr Hc). fold n1 in Hra. lia. }
    assert (HB' : forall b, In (ct, b) (cells B) -> rows_in_range (length (pts M)) (remap pm b)).
    { intros b Hb r c Hr Hc. unfold remap in Hr. apply in_map_iff in Hr. destruct Hr as [r0 [He Hr0]]. subst r.
      apply in_map_iff in Hc. destruct Hc as [c0 [He Hc0]]. subst c.
      pose proof HB as [_ [_ Hrb]]. specialize (Hrb ct b Hb r0 c0 Hr0 Hc0). apply pm_spec. exact Hrb. }
    apply in_merge_assoc in Hin. destruct Hin as [[a [Ha Hv]]|[b [Hb Hv]]].
    - destruct (alookup ct (cells B)) as [b|] eqn:Eb.
      + subst rows. intros r c Hr Hc. apply in_app_or in Hr. destruct Hr as [Hr|Hr].
        * apply (HA' a Ha r c Hr Hc).
        * apply alookup_in in Eb. apply (HB' b Eb r c Hr Hc).
      + subst rows. apply HA'. exact Ha.
    - subst rows. apply HB'. exact Hb.
  Qed.

  (* point data: A's rows, then B's rows of the points that are new *)
  Theorem merge2_pdata : forall name ra rb,
    alookup name (pdata A) = Some ra -> alookup name (pdata B) = Some rb ->
    length ra = n1 -> length rb = n2 ->
    pfield name M = ra ++ select zero flt rb /\
    combine (pts M) (pfield name M)
    = combine (pts A) ra ++ filter (fun pr => not_in (pts A) (fst pr)) (combine (pts B) rb).
  Proof.
    intros name ra rb Ha Hb Hla Hlb.
    assert (Hpf : pfield name M = ra ++ select zero flt rb).
    { unfold pfield, aget, M, merge2_fixed. cbn [pdata]. rewrite alookup_merge_assoc, Ha, Hb. reflexivity. }
    split; [exact Hpf|]. rewrite Hpf, pts_M_select.
    rewrite combine_app_eq by (fold n1; lia). f_equal.
    rewrite <- select_combine by (symmetry; exact Hlb).
    unfold flt, filter_ext. change (fun i => negb (dict_mem i d)) with (fresh d).
    assert (Hlen : length (combine (pts B) rb) = n2) by (rewrite combine_length, Hlb; fold n2; lia).
    rewrite <- Hlen. apply select_filter. intros i Hi. rewrite Hlen in Hi.
    rewrite combine_nth by (symmetry; exact Hlb). simpl. apply fresh_not_in. exact Hi.
  Qed.

  (* a point field that is the restriction of a function of the coordinates stays one *)
  Definition has_pfield (name : nat) (g : point -> V) (X : mf V) : Prop :=
    alookup name (pdata X) = Some (map g (pts X)).

  Theorem merge2_pfield_global : forall name g, has_pfield name g A -> has_pfield name g B -> has_pfield name g M.
  Proof.
    intros name g Ha Hb. unfold has_pfield in *. unfold M at 1, merge2_fixed. cbn [pdata].
    rewrite alookup_merge_assoc, Ha, Hb. f_equal. rewrite pts_M_select, map_app. f_equal.
    apply (select_map point V [] zero g). apply flt_range.
  Qed.
  (* every point field of the merged data set has one row per merged point — also the fields that only one of the two
     pieces carries (zero rows on the other piece's points; the count is the one repaired by the fix of F-C08b) *)
  Theorem merged_point_rows_length :
    (forall name r, In (name, r) (pdata A) -> length r = n1) ->
    (forall name r, In (name, r) (pdata B) -> length r = n2) ->
    forall name r, In (name, r) (pdata M) -> length r = length (pts M).
  Proof.
    intros HrA HrB name r Hin. rewrite pts_M_select, app_length, select_length. fold n1.
    unfold M, merge2_fixed in Hin. cbn [pdata] in Hin. fold d n2 flt in Hin.
    apply in_merge_assoc in Hin. destruct Hin as [[a [Ha Hv]]|[b [Hb Hv]]].
    - destruct (alookup name (pdata B)) as [b|] eqn:Eb; subst r.
      + rewrite app_length, select_length, (HrA name a Ha). reflexivity.
      + rewrite app_length, repeat_length, (HrA name a Ha). reflexivity.
    - subst r. rewrite app_length, repeat_length, select_length. reflexivity.
  Qed.

End Merge2.

Arguments has_pfield {V}.

(* ================================================================================================ *)
(* 9. the conservation theorems                                                                     *)
(* ================================================================================================ *)

Section MergeAll.
  Variable V : Type.
  Variable zero : V.
  Variable dim : nat.

  (* merge2_fixed_conserves: content(merge2_fixed A B) = content A (+) content B, shared points once, carrying A's values *)
  Theorem merge2_fixed_conserves : forall A B : mf V, wf dim A -> wf dim B ->
    let M := merge2_fixed zero A B in
    wf dim M
    /\ (forall ct, ccells ct M = ccells ct A ++ ccells ct B)
    /\ (forall ct name, cfield ct name M = cfield ct name A ++ cfield ct name B)
    /\ pts M = pts A ++ filter (not_in (pts A)) (pts B)
    /\ (forall p, In p (pts M) <-> In p (pts A) \/ In p (pts B))
    /\ (forall name ra rb,
          alookup name (pdata A) = Some ra -> alookup name (pdata B) = Some rb ->
          length ra = length (pts A) -> length rb = length (pts B) ->
          combine (pts M) (pfield name M)
          = combine (pts A) ra ++ filter (fun pr => not_in (pts A) (fst pr)) (combine (pts B) rb))
    /\ (forall name g, has_pfield name g A -> has_pfield name g B -> has_pfield name g M).
  Proof.
    intros A B HA HB M. unfold M.
    split; [apply (merge2_wf V zero dim A B HA HB)|].
    split; [apply (merge2_cells V zero dim A B HA HB)|].
    split; [apply (merge2_cdata V zero A B)|].
    split; [apply (pts_M V zero dim A B HA HB)|].
    split; [apply (merge2_points V zero dim A B HA HB)|].
    split.
    - intros name ra rb H1 H2 H3 H4. apply (merge2_pdata V zero dim A B HA HB name ra rb H1 H2 H3 H4).
    - intros name g. apply (merge2_pfield_global V zero A B).
  Qed.

  Theorem merge_fold_conserves : forall (ps : list (mf V)) (A : mf V), wf dim A -> Forall (wf dim) ps ->
    let M := fold_left (merge2_fixed zero) ps A in
    wf dim M
    /\ (forall ct, ccells ct M = ccells ct A ++ concat (map (ccells ct) ps))
    /\ (forall ct name, cfield ct name M = cfield ct name A ++ concat (map (cfield ct name) ps))
    /\ (forall p, In p (pts M) <-> In p (pts A) \/ exists B, In B ps /\ In p (pts B))
    /\ (forall name g, has_pfield name g A -> Forall (has_pfield name g) ps -> has_pfield name g M).
  Proof.
    induction ps as [|B ps IH]; intros A HA Hps; simpl.
    - split; [exact HA|]. split; [intro; rewrite app_nil_r; reflexivity|].
      split; [intros; rewrite app_nil_r; reflexivity|].
      split; [|intros; assumption].
      intro p. split; [tauto|]. intros [H|[B [[] _]]]. exact H.
    - inversion Hps as [|? ? HB Hps']; subst.
      destruct (merge2_fixed_conserves A B HA HB) as [Hw [Hc [Hd [_ [Hp [_ Hg]]]]]].
      destruct (IH (merge2_fixed zero A B) Hw Hps') as [Hw' [Hc' [Hd' [Hp' Hg']]]].
      split; [exact Hw'|].
      split; [intro ct; rewrite Hc', Hc, <- app_assoc; reflexivity|].
      split; [intros ct name; rewrite Hd', Hd, <- app_assoc; reflexivity|].
      split.
      + intro p. rewrite Hp', Hp. split.
        * intros [[H|H]|[X [HX H]]]; [left; exact H|right; exists B; split; [left; reflexivity|exact H]|].
          right. exists X. split; [right; exact HX|exact H].
        * intros [H|[X [[HX|HX] H]]]; [left; left; exact H|subst X; left; right; exact H|].
          right. exists X. split; assumption.
      + intros name g HgA Hall. inversion Hall; subst. apply Hg'; [apply Hg; assumption|assumption].
  Qed.

  (* merge_all (repaired) of any list of well-formed pieces: every cell of every piece once, in the order of the pieces, with
     its corner coordinates and its cell data; the points are the union of the pieces' points, each once; a point field that is
     a function of the coordinates on every piece is that function on the result *)
  Theorem merge_all_fixed_conserves : forall pieces : list (mf V), pieces <> [] -> Forall (wf dim) pieces ->
    exists M, merge_all_fixed zero pieces = Some M /\ wf dim M
      /\ (forall ct, ccells ct M = concat (map (ccells ct) pieces))
      /\ (forall ct name, cfield ct name M = concat (map (cfield ct name) pieces))
      /\ (forall p, In p (pts M) <-> exists B, In B pieces /\ In p (pts B))
      /\ (forall name g, Forall (has_pfield name g) pieces -> has_pfield name g M).
  Proof.
    intros [|A ps] Hne Hall; [congruence|]. inversion Hall as [|? ? HA Hps]; subst.
    destruct (merge_fold_conserves ps A HA Hps) as [Hw [Hc [Hd [Hp Hg]]]].
    exists (fold_left (merge2_fixed zero) ps A). split; [reflexivity|]. split; [exact Hw|].
    split; [exact Hc|]. split; [exact Hd|]. split.
    - intro p. rewrite Hp. split.
      + intros [H|[B [HB H]]]; [exists A; split; [left; reflexivity|exact H]|exists B; split; [right; exact HB|exact H]].
      + intros [B [[HB|HB] H]]; [subst B; left; exact H|right; exists B; split; assumption].
    - intros name g Hf. inversion Hf; subst. apply Hg; assumption.
  Qed.

  Lemma combine_concat_map : forall (Z X Y : Type) (f : Z -> list X) (g : Z -> list Y) (l : list Z),
    Forall (fun z => length (f z) = length (g z)) l ->
    combine (concat (map f l)) (concat (map g l)) = concat (map (fun z => combine (f z) (g z)) l).
  Proof.
    intros Z X Y f g l H. induction H as [|z l Hl Hls IH]; simpl; [reflexivity|].
    rewrite combine_app_eq by exact Hl. rewrite IH. reflexivity.
  Qed.

  (* merge_all_is_global: `pieces` is a partition of a global data set G when G's cells (with their data) are, up to
     reordering, those of the pieces, G's points are the union of the pieces' points, and the point field is single valued
     (a function g of the coordinates).  Then the merged data set equals G up to reordering. *)
  Theorem merge_all_is_global : forall (G : mf V) (pieces : list (mf V)),
    pieces <> [] -> Forall (wf dim) pieces -> NoDup (pts G) ->
    (forall p, In p (pts G) <-> exists B, In B pieces /\ In p (pts B)) ->
    exists M, merge_all_fixed zero pieces = Some M
      /\ Permutation (pts M) (pts G)
      /\ (forall ct name,
            Forall (fun X => length (ccells ct X) = length (cfield ct name X)) pieces ->
            Permutation (concat (map (fun X => combine (ccells ct X) (cfield ct name X)) pieces))
                        (combine (ccells ct G) (cfield ct name G)) ->
            Permutation (combine (ccells ct M) (cfield ct name M)) (combine (ccells ct G) (cfield ct name G)))
      /\ (forall name g, has_pfield name g G -> Forall (has_pfield name g) pieces ->
            pfield name M = map g (pts M)).
  Proof.
    intros G pieces Hne Hall HnG HpG.
    destruct (merge_all_fixed_conserves pieces Hne Hall) as [M [HM [Hw [Hc [Hd [Hp Hg]]]]]].
    exists M. split; [exact HM|]. split; [|split].
    - apply NoDup_Permutation; [apply Hw|exact HnG|]. intro p. rewrite Hp, HpG. tauto.
    - intros ct name Hlen Hperm. rewrite Hc, Hd.
      rewrite (combine_concat_map _ _ _ (ccells ct) (cfield ct name) pieces Hlen). exact Hperm.
    - intros name g _ Hf. specialize (Hg name g Hf). unfold has_pfield in Hg. unfold pfield, aget. rewrite Hg. reflexivity.
  Qed.
End MergeAll.

(* ================================================================================================ *)
(* 10. the pinned _merge violates conservation (finding F-C06a)                                     *)
(* ================================================================================================ *)

(* a unit square (one QUAD, cell value 10) and the triangle on three of its corners (one TRIANGLE, cell value 20) *)
Definition wit_quad : mf nat :=
  {| pts := [[0; 0]; [1; 0]; [1; 1]; [0; 1]]%Z; cells := [(9, [[0; 1; 2; 3]])];
     pdata := [(0, [1; 2; 3; 4])]; cdata := [(9, [(0, [10])])] |}.
Definition wit_tri : mf nat :=
  {| pts := [[0; 0]; [1; 0]; [1; 1]]%Z; cells := [(5, [[0; 1; 2]])];
     pdata := [(0, [1; 2; 3])]; cdata := [(5, [(0, [20])])] |}.

Ltac nodup_concrete :=
  repeat (constructor; [simpl; let H := fresh in intro H; repeat (destruct H as [H|H]; [discriminate H|]); exact H|]);
  constructor.

Lemma wit_quad_wf : wf 2 wit_quad.
Proof.
  split; [|split].
  - simpl. nodup_concrete.
  - intros p H. simpl in H. repeat (destruct H as [H|H]; [subst p; reflexivity|]). contradiction.
  - intros ct rows H. simpl in H. destruct H as [H|[]]. inversion H; subst.
    intros r c Hr Hc. simpl in Hr. destruct Hr as [Hr|[]]. subst r. simpl in *. lia.
Qed.

Lemma wit_tri_wf : wf 2 wit_tri.
Proof.
  split; [|split].
  - simpl. nodup_concrete.
  - intros p H. simpl in H. repeat (destruct H as [H|H]; [subst p; reflexivity|]). contradiction.
  - intros ct rows H. simpl in H. destruct H as [H|[]]. inversion H; subst.
    intros r c Hr Hc. simpl in Hr. destruct Hr as [Hr|[]]. subst r. simpl in *. lia.
Qed.

(* the repaired merge keeps the triangle and its value; the pinned one returns the first piece unchanged *)
Theorem merge2_pinned_refuted :
  exists A B : mf nat, wf 2 A /\ wf 2 B /\
    ccells 5 (merge2 0 A B) <> ccells 5 A ++ ccells 5 B /\
    cfield 5 0 (merge2 0 A B) <> cfield 5 0 A ++ cfield 5 0 B /\
    ccells 5 (merge2_fixed 0 A B) = ccells 5 A ++ ccells 5 B /\
    cfield 5 0 (merge2_fixed 0 A B) = [20].
Proof.
  exists wit_quad, wit_tri. split; [exact wit_quad_wf|]. split; [exact wit_tri_wf|].
  vm_compute. repeat split; try reflexivity; discriminate.
Qed.
