(* Proofs/CornerP.v — C02: the mesh comparison (Model/Mesh.v: mesh_equal = _mesh_equal.py) does not depend on the order
   in which a cell lists its corners: any per-cell rearrangement of the corner lists (another start corner, the other
   orientation, any permutation) of every cell of every block leaves the verdict "equal", for every mesh whose blocks
   carry distinct cell types, every point list and every tolerance with a non-negative absolute part. *)
From Coq Require Import QArith Arith Bool List Lia Permutation.
From FC Require Import Model.Scalar Model.Mesh Proofs.ScalarP Proofs.MeshP Proofs.StructuredMeshP.
Import ListNotations.
Local Open Scope nat_scope.

Definition map_corners (f : list nat -> list nat) (M : mesh) : mesh :=
  {| pts := pts M; cells := map (fun b => (fst b, map f (snd b))) (cells M) |}.

Lemma memb_true_iff n l : memb n l = true <-> In n l.
Proof.
  unfold memb. rewrite existsb_exists. split.
  - intros [x [Hx E]]. apply Nat.eqb_eq in E. subst. exact Hx.
  - intros H. exists n. split; [exact H|apply Nat.eqb_refl].
Qed.

Lemma memb_false_iff n l : memb n l = false <-> ~ In n l.
Proof.
  rewrite <- memb_true_iff. destruct (memb n l); split; intros H.
  - discriminate.
  - exfalso. apply H. reflexivity.
  - intros H'. discriminate.
  - reflexivity.
Qed.

Lemma match_types_aux_refl : forall S T used,
  (forall s, In s S -> In s T) -> NoDup S -> (forall s, In s S -> ~ In s used) ->
  match_types_aux S T used = Some (map (fun s => (s, s)) S).
Proof.
  induction S as [|s S IH]; intros T used Hin Hnd Hus; cbn [match_types_aux map]; [reflexivity|].
  unfold partner. assert (E1 : memb s T = true) by (apply memb_true_iff; apply Hin; left; reflexivity).
  rewrite E1. assert (E2 : memb s used = false) by (apply memb_false_iff; apply Hus; left; reflexivity).
  rewrite E2. inversion Hnd as [|x l Hnotin Hnd']; subst.
  rewrite (IH T (s :: used)); [reflexivity| | exact Hnd' |].
  - intros s' Hs'. apply Hin. right. exact Hs'.
  - intros s' Hs' [Heq|Hu]; [subst; contradiction|]. apply (Hus s'); [right; exact Hs'|exact Hu].
Qed.

Lemma match_types_refl S : NoDup S -> match_types S S = Some (map (fun s => (s, s)) S).
Proof.
  intros Hnd. unfold match_types. rewrite Nat.eqb_refl.
  apply match_types_aux_refl; [intros s Hs; exact Hs|exact Hnd|intros s _ H; exact H].
Qed.

Lemma rows_of_map_corners f t : forall bl,
  rows_of t (map (fun b : nat * list (list nat) => (fst b, map f (snd b))) bl) = map f (rows_of t bl).
Proof.
  induction bl as [|[u rows] bl IH]; cbn [map rows_of fst snd]; [reflexivity|].
  destruct (u =? t); [reflexivity|exact IH].
Qed.

Lemma cell_types_map_corners f M : cell_types (map_corners f M) = cell_types M.
Proof.
  unfold cell_types, map_corners. cbn [cells]. rewrite map_map. apply map_ext. intros b. reflexivity.
Qed.

Theorem corner_order_irrelevant rel abs (f : list nat -> list nat) M :
  (0 <= abs)%Q -> NoDup (cell_types M) -> (forall r, Permutation r (f r)) ->
  mesh_equal rel abs M (map_corners f M) = true.
Proof.
  intros Habs Hnd Hf. unfold mesh_equal. rewrite cell_types_map_corners.
  cbn [map_corners pts cells]. rewrite (points_close_refl rel abs (pts M) Habs). cbn [andb].
  rewrite (match_types_refl _ Hnd). apply forallb_forall. intros [s t] Hst.
  apply in_map_iff in Hst. destruct Hst as [s' [E _]]. inversion E; subst. cbn [fst snd].
  rewrite rows_of_map_corners.
  rewrite <- (map_id (rows_of t (cells M))) at 1.
  apply rows_equal_map. intros r _. apply Hf.
Qed.

(* a cell listed from another start corner: rotation of the corner list *)
Definition rotate (k : nat) (r : list nat) : list nat := skipn (k mod (length r)) r ++ firstn (k mod (length r)) r.

Lemma rotate_Permutation k r : Permutation r (rotate k r).
Proof.
  unfold rotate. rewrite <- (firstn_skipn (k mod length r) r) at 1. apply Permutation_app_comm.
Qed.

Corollary start_corner_irrelevant rel abs k M :
  (0 <= abs)%Q -> NoDup (cell_types M) -> mesh_equal rel abs M (map_corners (rotate k) M) = true.
Proof. intros Habs Hnd. apply corner_order_irrelevant; [exact Habs|exact Hnd|apply rotate_Permutation]. Qed.

(* the other orientation: the corner list reversed *)
Corollary orientation_irrelevant rel abs M :
  (0 <= abs)%Q -> NoDup (cell_types M) -> mesh_equal rel abs M (map_corners (@rev nat) M) = true.
Proof. intros Habs Hnd. apply corner_order_irrelevant; [exact Habs|exact Hnd|intros r; apply Permutation_rev]. Qed.

(* non-vacuity and the converse direction: a cell with ANOTHER corner set is told apart *)
Example corner_order_example :
  let M := {| pts := [[0#1; 0#1]; [1#1; 0#1]; [1#1; 1#1]; [0#1; 1#1]]%Q; cells := [(5, [[0; 1; 2]; [0; 2; 3]]); (3, [[0; 1]])] |} in
  NoDup (cell_types M) /\
  mesh_equal (1#1000) (0#1) M (map_corners (rotate 1) M) = true /\
  map_corners (rotate 1) M <> M /\
  mesh_equal (1#1000) (0#1) M {| pts := pts M; cells := [(5, [[0; 1; 3]; [0; 2; 3]]); (3, [[0; 1]])] |} = false.
Proof.
  cbv zeta. split; [|split; [|split]].
  - cbn. repeat constructor; cbn; intuition discriminate.
  - vm_compute. reflexivity.
  - intros H. discriminate H.
  - vm_compute. reflexivity.
Qed.

(* ---- the order in which the cell blocks (one per cell type) are listed is not compared either ------------------ *)
Lemma rows_of_notin t : forall bl, ~ In t (map fst bl) -> rows_of t bl = [].
Proof.
  induction bl as [|[u rows] bl IH]; intros H; cbn [rows_of]; [reflexivity|].
  destruct (u =? t) eqn:E.
  - apply Nat.eqb_eq in E. exfalso. apply H. left. exact E.
  - apply IH. intros H'. apply H. right. exact H'.
Qed.

Lemma rows_of_perm t : forall bl bl' : list (nat * list (list nat)),
  Permutation bl bl' -> NoDup (map fst bl) -> rows_of t bl = rows_of t bl'.
Proof.
  intros bl bl' HP. induction HP as [|[u rows] l l' HP IH|[u1 r1] [u2 r2] l|l l' l'' HP1 IH1 HP2 IH2]; intros Hnd.
  - reflexivity.
  - cbn [rows_of]. destruct (u =? t); [reflexivity|]. apply IH. cbn [map fst] in Hnd. inversion Hnd; assumption.
  - cbn [rows_of]. destruct (u1 =? t) eqn:E1; destruct (u2 =? t) eqn:E2; try reflexivity.
    apply Nat.eqb_eq in E1, E2. subst. cbn [map fst] in Hnd. inversion Hnd as [|x l0 Hn _]; subst.
    exfalso. apply Hn. left. reflexivity.
  - rewrite IH1 by exact Hnd. apply IH2.
    apply (Permutation_NoDup (l := map fst l)); [apply Permutation_map; exact HP1|exact Hnd].
Qed.

Theorem block_order_irrelevant rel abs A B :
  (0 <= abs)%Q -> NoDup (cell_types A) -> pts A = pts B -> Permutation (cells A) (cells B) ->
  mesh_equal rel abs A B = true.
Proof.
  intros Habs Hnd Hp HP. unfold mesh_equal. rewrite <- Hp, (points_close_refl rel abs (pts A) Habs). cbn [andb].
  assert (HT : Permutation (cell_types A) (cell_types B)) by (apply Permutation_map; exact HP).
  unfold match_types. rewrite (Permutation_length HT), Nat.eqb_refl.
  rewrite (match_types_aux_refl (cell_types A) (cell_types B) []);
    [|intros s Hs; apply (Permutation_in _ HT); exact Hs|exact Hnd|intros s _ H; exact H].
  apply forallb_forall. intros [s t] Hst. apply in_map_iff in Hst. destruct Hst as [s' [E _]]. inversion E; subst.
  cbn [fst snd]. rewrite (rows_of_perm t _ _ HP Hnd). apply rows_equal_refl.
Qed.

Corollary mesh_equal_refl rel abs M : (0 <= abs)%Q -> NoDup (cell_types M) -> mesh_equal rel abs M M = true.
Proof. intros Habs Hnd. apply block_order_irrelevant; [exact Habs|exact Hnd|reflexivity|apply Permutation_refl]. Qed.

(* the hypothesis is needed: a mesh listing one cell type in two blocks is not even equal to itself in the model
   (the implementation keeps one block per type, so its meshes meet the hypothesis) *)
Example mesh_equal_refl_needs_distinct_types :
  mesh_equal (1#1000) (0#1) {| pts := [[0#1]; [1#1]]%Q; cells := [(3, [[0; 1]]); (3, [[1; 0]])] |}
                            {| pts := [[0#1]; [1#1]]%Q; cells := [(3, [[0; 1]]); (3, [[1; 0]])] |} = false.
Proof. vm_compute. reflexivity. Qed.

Example block_order_example :
  let A := {| pts := [[0#1; 0#1]; [1#1; 0#1]; [1#1; 1#1]; [0#1; 1#1]]%Q; cells := [(5, [[0; 1; 2]; [0; 2; 3]]); (3, [[0; 1]])] |} in
  let B := {| pts := pts A; cells := [(3, [[0; 1]]); (5, [[0; 1; 2]; [0; 2; 3]])] |} in
  A <> B /\ Permutation (cells A) (cells B) /\ mesh_equal (1#1000) (0#1) A B = true.
Proof.
  cbv zeta. split; [intros H; discriminate H|split; [apply perm_swap|vm_compute; reflexivity]].
Qed.

(* ---- completeness for meshes over the same cell types ------------------------------------------------------------ *)
(* the converse of mesh_equal_sound where no pixel/quad or voxel/hexahedron exchange is involved: points pairwise within
   tolerance and, type by type, rows with the same corners (in any corner order) are ENOUGH for the verdict "equal" —
   the comparison looks at nothing else *)
Theorem mesh_equal_complete rel abs A B :
  NoDup (cell_types A) -> Permutation (cell_types A) (cell_types B) ->
  points_close rel abs (pts A) (pts B) = true ->
  (forall t, In t (cell_types A) -> rows_equal (rows_of t (cells A)) (rows_of t (cells B)) = true) ->
  mesh_equal rel abs A B = true.
Proof.
  intros Hnd HT Hp Hr. unfold mesh_equal. rewrite Hp. cbn [andb].
  unfold match_types. rewrite (Permutation_length HT), Nat.eqb_refl.
  rewrite (match_types_aux_refl (cell_types A) (cell_types B) []);
    [|intros s Hs; apply (Permutation_in _ HT); exact Hs|exact Hnd|intros s _ H; exact H].
  apply forallb_forall. intros [s t] Hst. apply in_map_iff in Hst. destruct Hst as [s' [E Hin]]. inversion E; subst.
  cbn [fst snd]. apply Hr. exact Hin.
Qed.
