(* Proofs/PMergeP.v — C06, structured parallel files: the decomposition recovered from the piece extents and the merged
   field for ALL THREE axes at once, every listing order of the pieces, every mix of meshed and flat directions. *)
From Coq Require Import QArith ZArith Bool Arith List Lia Permutation Sorted.
From FC Require Import Model.Structured Proofs.StructuredP.
Import ListNotations.
Local Open Scope nat_scope.

(* a direction is either meshed (at least one piece, all piece sizes positive) or flat (one "piece" of size 0) *)
Definition axis_ok (s : list Z) : Prop := (s <> [] /\ Forall (fun x => (0 < x)%Z) s) \/ s = [0%Z].
Definition meshedb (s : list Z) : bool := (0 <? nth 0 s 0)%Z.

Lemma axis_ok_len s : axis_ok s -> 0 < length s.
Proof. intros [[Hne _]| ->]; [destruct s; [congruence|simpl; lia]|simpl; lia]. Qed.

Lemma axis_ok_meshed s : axis_ok s -> meshedb s = true -> Forall (fun x => (0 < x)%Z) s.
Proof. intros [[_ H]| ->] Hm; [exact H|]. unfold meshedb in Hm. simpl in Hm. discriminate. Qed.

Lemma axis_ok_flat s : axis_ok s -> meshedb s = false -> s = [0%Z].
Proof.
  intros [[Hne H]| ->] Hm; [|reflexivity]. exfalso. destruct s as [|x s]; [congruence|].
  inversion H; subst. unfold meshedb in Hm. simpl in Hm. apply Z.ltb_ge in Hm. lia.
Qed.

(* one axis, meshed or flat *)
Lemma axis_general b s ps : axis_ok s -> (forall p, In p ps <-> p < length s) ->
  map2 (fun e b' => (e - b')%Z) (unique_sorted (map (zend b s) ps)) (unique_sorted (map (zbegin b s) ps)) = s
  /\ forall p, p < length s -> index_of (zbegin b s p) (unique_sorted (map (zbegin b s) ps)) = p.
Proof.
  intros [[Hne Hpos]| ->] Hps.
  - apply axis_decomposition_from_extents; assumption.
  - assert (E : forall f : nat -> Z, unique_sorted (map f ps) = [f 0]).
    { intros f. apply strict_sorted_unique.
      - apply unique_sorted_sorted.
      - repeat constructor.
      - intros x. rewrite unique_sorted_in, in_map_iff. split.
        + intros [p [<- Hp]]. apply Hps in Hp. simpl in Hp. assert (p = 0) by lia. subst. left. reflexivity.
        + intros [<-|[]]. exists 0. split; [reflexivity|]. apply Hps. simpl. lia. }
    rewrite !E. split.
    + unfold zend, zbegin, zoff. simpl. f_equal. lia.
    + intros p Hp. simpl in Hp. assert (p = 0) by lia. subst. simpl. rewrite Z.eqb_refl. reflexivity.
Qed.

Definition restrict {A : Type} (ms : list bool) (l : list A) : list A := map snd (filter fst (combine ms l)).

Lemma list_nat_eqb_spec a : forall b, list_nat_eqb a b = true <-> a = b.
Proof.
  induction a as [|x a IH]; intros [|y b]; simpl; split; intro H; try reflexivity; try discriminate.
  - apply andb_prop in H. destruct H as [H1 H2]. apply Nat.eqb_eq in H1. apply IH in H2. subst. reflexivity.
  - injection H as -> ->. rewrite Nat.eqb_refl. apply IH. reflexivity.
Qed.

(* "the last listed piece at a location wins" *)
Lemma fold_no_match {X} (P : X -> bool) : forall (l : list (nat * X)) acc,
  (forall ie, In ie l -> P (snd ie) = false) ->
  fold_left (fun acc ie => if P (snd ie) then fst ie else acc) l acc = acc.
Proof.
  induction l as [|ie l IH]; intros acc H; [reflexivity|]. cbn [fold_left].
  rewrite (H ie (or_introl eq_refl)). apply IH. intros ie' Hin. apply H. right. exact Hin.
Qed.

Lemma fold_last_match {X} (P : X -> bool) (l1 l2 : list (nat * X)) i x acc :
  P x = true -> (forall ie, In ie l2 -> P (snd ie) = false) ->
  fold_left (fun acc ie => if P (snd ie) then fst ie else acc) (l1 ++ (i, x) :: l2) acc = i.
Proof.
  intros Hx H2. rewrite fold_left_app. cbn [fold_left fst snd]. rewrite Hx. apply fold_no_match. exact H2.
Qed.

Lemma combine_app_eq {A B} (a1 a2 : list A) (b1 b2 : list B) : length a1 = length b1 ->
  combine (a1 ++ a2) (b1 ++ b2) = combine a1 b1 ++ combine a2 b2.
Proof.
  revert b1. induction a1 as [|x a1 IH]; intros [|y b1] H; try discriminate; [reflexivity|].
  cbn [app combine]. f_equal. apply IH. simpl in H. lia.
Qed.

Section PiecesOfALattice.
Variables b0 b1 b2 : Z.
Variables s0 s1 s2 : list Z.
Hypothesis A0 : axis_ok s0.
Hypothesis A1 : axis_ok s1.
Hypothesis A2 : axis_ok s2.

Definition shape3 : list nat := [length s0; length s1; length s2].
(* the extent (begin / end index per direction) of the piece at lattice position l *)
Definition ext_of (l : list nat) : list Z :=
  [zbegin b0 s0 (nth 0 l 0); zend b0 s0 (nth 0 l 0); zbegin b1 s1 (nth 1 l 0); zend b1 s1 (nth 1 l 0);
   zbegin b2 s2 (nth 2 l 0); zend b2 s2 (nth 2 l 0)].

(* the pieces in the order in which the index file lists them: every lattice position occurs *)
Variable listing : list (list nat).
Hypothesis Hcover : forall l, In l listing <-> In l (locations_in shape3).
Definition exts : list (list Z) := map ext_of listing.
Definition ms : list bool := [meshedb s0; meshedb s1; meshedb s2].
Definition dec : list (list nat) := restrict ms (map (map Z.to_nat) [s0; s1; s2]).

Lemma loc3_shape l : In l (locations_in shape3) <->
  exists i j k, l = [i; j; k] /\ i < length s0 /\ j < length s1 /\ k < length s2.
Proof.
  rewrite in_locations. unfold shape3. split.
  - intros H. inversion H as [|i m0 l1 r1 Hi H1]; subst. inversion H1 as [|j m1 l2 r2 Hj H2']; subst.
    inversion H2' as [|k m2 l3 r3 Hk H3]; subst. inversion H3; subst. exists i, j, k. repeat split; assumption.
  - intros (i & j & k & -> & Hi & Hj & Hk). repeat constructor; assumption.
Qed.

Lemma coords0 : forall p, In p (map (fun l => nth 0 l 0) listing) <-> p < length s0.
Proof.
  intros p. rewrite in_map_iff. split.
  - intros [l [<- Hl]]. apply Hcover, loc3_shape in Hl. destruct Hl as (i & j & k & -> & Hi & _). exact Hi.
  - intros Hp. exists [p; 0; 0]. split; [reflexivity|]. apply Hcover, loc3_shape. exists p, 0, 0.
    repeat split; [exact Hp|apply axis_ok_len; exact A1|apply axis_ok_len; exact A2].
Qed.
Lemma coords1 : forall p, In p (map (fun l => nth 1 l 0) listing) <-> p < length s1.
Proof.
  intros p. rewrite in_map_iff. split.
  - intros [l [<- Hl]]. apply Hcover, loc3_shape in Hl. destruct Hl as (i & j & k & -> & _ & Hj & _). exact Hj.
  - intros Hp. exists [0; p; 0]. split; [reflexivity|]. apply Hcover, loc3_shape. exists 0, p, 0.
    repeat split; [apply axis_ok_len; exact A0|exact Hp|apply axis_ok_len; exact A2].
Qed.
Lemma coords2 : forall p, In p (map (fun l => nth 2 l 0) listing) <-> p < length s2.
Proof.
  intros p. rewrite in_map_iff. split.
  - intros [l [<- Hl]]. apply Hcover, loc3_shape in Hl. destruct Hl as (i & j & k & -> & _ & _ & Hk). exact Hk.
  - intros Hp. exists [0; 0; p]. split; [reflexivity|]. apply Hcover, loc3_shape. exists 0, 0, p.
    repeat split; [apply axis_ok_len; exact A0|apply axis_ok_len; exact A1|exact Hp].
Qed.

Lemma begins0 : axis_begins exts 0 = map (zbegin b0 s0) (map (fun l => nth 0 l 0) listing).
Proof. unfold axis_begins, exts. rewrite !map_map. reflexivity. Qed.
Lemma begins1 : axis_begins exts 1 = map (zbegin b1 s1) (map (fun l => nth 1 l 0) listing).
Proof. unfold axis_begins, exts. rewrite !map_map. reflexivity. Qed.
Lemma begins2 : axis_begins exts 2 = map (zbegin b2 s2) (map (fun l => nth 2 l 0) listing).
Proof. unfold axis_begins, exts. rewrite !map_map. reflexivity. Qed.
Lemma ends0 : axis_ends exts 0 = map (zend b0 s0) (map (fun l => nth 0 l 0) listing).
Proof. unfold axis_ends, exts. rewrite !map_map. reflexivity. Qed.
Lemma ends1 : axis_ends exts 1 = map (zend b1 s1) (map (fun l => nth 1 l 0) listing).
Proof. unfold axis_ends, exts. rewrite !map_map. reflexivity. Qed.
Lemma ends2 : axis_ends exts 2 = map (zend b2 s2) (map (fun l => nth 2 l 0) listing).
Proof. unfold axis_ends, exts. rewrite !map_map. reflexivity. Qed.

(* sizes_along_axis recovers the piece sizes of all three directions, whatever the listing order *)
Theorem sizes_from_extents : sizes_along_axis exts = [s0; s1; s2].
Proof.
  unfold sizes_along_axis. cbn [map].
  rewrite begins0, begins1, begins2, ends0, ends1, ends2.
  rewrite (proj1 (axis_general b0 s0 _ A0 coords0)), (proj1 (axis_general b1 s1 _ A1 coords1)),
          (proj1 (axis_general b2 s2 _ A2 coords2)). reflexivity.
Qed.

Lemma has_dimension_ms : has_dimension (sizes_along_axis exts) = ms.
Proof. rewrite sizes_from_extents. reflexivity. Qed.

Theorem decomposition_from_extents : merger_decomposition exts = dec.
Proof.
  unfold merger_decomposition, meshed_dirs. cbv zeta. rewrite sizes_from_extents.
  change (has_dimension [s0; s1; s2]) with ms. unfold dec, restrict, ms.
  destruct (meshedb s0), (meshedb s1), (meshedb s2); reflexivity.
Qed.

(* the position of a piece in the piece lattice is recovered from its extent *)
Theorem location_from_extent i j k : i < length s0 -> j < length s1 -> k < length s2 ->
  piece_location exts (ext_of [i; j; k]) = restrict ms [i; j; k].
Proof.
  intros Hi Hj Hk. unfold piece_location, meshed_dirs. rewrite sizes_from_extents.
  change (has_dimension [s0; s1; s2]) with ms.
  pose proof (proj2 (axis_general b0 s0 _ A0 coords0) i Hi) as E0.
  pose proof (proj2 (axis_general b1 s1 _ A1 coords1) j Hj) as E1.
  pose proof (proj2 (axis_general b2 s2 _ A2 coords2) k Hk) as E2.
  rewrite <- begins0 in E0. rewrite <- begins1 in E1. rewrite <- begins2 in E2.
  unfold restrict, ms.
  destruct (meshedb s0), (meshedb s1), (meshedb s2); cbn [nth filter map combine fst snd Nat.mul Nat.add ext_of];
    rewrite ?E0, ?E1, ?E2; reflexivity.
Qed.

Lemma restrict_inj i j k i' j' k' :
  i < length s0 -> j < length s1 -> k < length s2 -> i' < length s0 -> j' < length s1 -> k' < length s2 ->
  restrict ms [i; j; k] = restrict ms [i'; j'; k'] -> [i; j; k] = [i'; j'; k'].
Proof.
  intros Hi Hj Hk Hi' Hj' Hk'. unfold restrict, ms.
  destruct (meshedb s0) eqn:M0, (meshedb s1) eqn:M1, (meshedb s2) eqn:M2;
    cbn [combine filter map fst snd]; intros E;
    try (rewrite (axis_ok_flat s0 A0 M0) in Hi, Hi'; simpl in Hi, Hi');
    try (rewrite (axis_ok_flat s1 A1 M1) in Hj, Hj'; simpl in Hj, Hj');
    try (rewrite (axis_ok_flat s2 A2 M2) in Hk, Hk'; simpl in Hk, Hk');
    try (injection E; intros; subst); repeat f_equal; lia.
Qed.

Hypothesis Hnodup : NoDup listing.

(* the callback of the merger picks, for every position of the piece lattice, the piece listed for it *)
Theorem domain_id_from_extents n : n < length listing ->
  domain_id exts (restrict ms (nth n listing [])) = n.
Proof.
  intros Hn. unfold domain_id.
  destruct (nth_split listing [] Hn) as (pre & post & Hsplit & Hpre).
  set (l := nth n listing []) in *.
  assert (Hl : In l (locations_in shape3)) by (apply Hcover; apply nth_In; exact Hn).
  apply loc3_shape in Hl. destruct Hl as (i & j & k & El & Hi & Hj & Hk).
  assert (Hc : combine (seq 0 (length exts)) exts
               = combine (seq 0 n) (map ext_of pre) ++ (n, ext_of l) :: combine (seq (S n) (length post)) (map ext_of post)).
  { unfold exts. rewrite map_length. rewrite Hsplit. rewrite map_app, app_length. cbn [map length].
    rewrite seq_app. cbn [seq]. rewrite combine_app_eq by (rewrite seq_length, map_length; reflexivity).
    cbn [combine]. rewrite Hpre. reflexivity. }
  rewrite Hc. apply (fold_last_match (fun e => list_nat_eqb (piece_location exts e) (restrict ms l))).
  - apply list_nat_eqb_spec. rewrite El. apply location_from_extent; assumption.
  - intros [m e] Hin. cbn [snd]. apply in_combine_r in Hin. apply in_map_iff in Hin. destruct Hin as [l' [<- Hl']].
    destruct (list_nat_eqb (piece_location exts (ext_of l')) (restrict ms l)) eqn:E; [|reflexivity].
    exfalso. apply list_nat_eqb_spec in E.
    assert (Hl'in : In l' listing) by (rewrite Hsplit; apply in_or_app; right; right; exact Hl').
    apply Hcover, loc3_shape in Hl'in. destruct Hl'in as (i' & j' & k' & El' & Hi' & Hj' & Hk').
    rewrite El' in E. rewrite location_from_extent in E by assumption. rewrite El in E.
    apply restrict_inj in E; try assumption.
    rewrite Hsplit in Hnodup. apply NoDup_remove_2 in Hnodup. apply Hnodup. apply in_or_app. right.
    rewrite El, <- E, <- El'. exact Hl'.
Qed.

Lemma pieces_shape_dec : pieces_shape dec = restrict ms shape3.
Proof.
  unfold pieces_shape, dec, restrict, ms, shape3.
  destruct (meshedb s0), (meshedb s1), (meshedb s2); cbn [combine filter map fst snd]; rewrite ?map_length; reflexivity.
Qed.

Lemma dec_nonempty : Forall (fun s => s <> []) dec.
Proof.
  assert (N : forall s, axis_ok s -> map Z.to_nat s <> []).
  { intros s Hs E. apply axis_ok_len in Hs. apply (f_equal (@length nat)) in E. rewrite map_length in E. simpl in E. lia. }
  unfold dec, restrict, ms.
  destruct (meshedb s0), (meshedb s1), (meshedb s2); cbn [combine filter map fst snd]; repeat constructor; apply N; assumption.
Qed.

Ltac inv_f2 H :=
  repeat match type of H with
         | Forall2 _ _ (_ :: _) => let a := fresh "a" in let l := fresh "l" in let Ha := fresh "Ha" in let Hl := fresh "Hl" in
                                   inversion H as [|a ? l ? Ha Hl]; subst; clear H; rename Hl into H
         | Forall2 _ _ [] => inversion H; subst; clear H
         end.

(* every position of the lattice of meshed directions is the restriction of a listed piece position *)
Lemma expand_exists loc : In loc (locations_in (restrict ms shape3)) ->
  exists i j k, i < length s0 /\ j < length s1 /\ k < length s2 /\ restrict ms [i; j; k] = loc.
Proof.
  pose proof (axis_ok_len s0 A0) as L0. pose proof (axis_ok_len s1 A1) as L1. pose proof (axis_ok_len s2 A2) as L2.
  unfold restrict, ms, shape3. intros H. apply in_locations in H.
  destruct (meshedb s0), (meshedb s1), (meshedb s2); cbn [combine filter map fst snd] in H |- *.
  - inversion H as [|i ? l1 ? Hi H1]; subst. inversion H1 as [|j ? l2 ? Hj H2']; subst. inversion H2' as [|k ? l3 ? Hk H3]; subst.
    inversion H3; subst. exists i, j, k. repeat split; assumption.
  - inversion H as [|i ? l1 ? Hi H1]; subst. inversion H1 as [|j ? l2 ? Hj H2']; subst. inversion H2'; subst.
    exists i, j, 0. repeat split; assumption.
  - inversion H as [|i ? l1 ? Hi H1]; subst. inversion H1 as [|k ? l2 ? Hk H2']; subst. inversion H2'; subst.
    exists i, 0, k. repeat split; assumption.
  - inversion H as [|i ? l1 ? Hi H1]; subst. inversion H1; subst. exists i, 0, 0. repeat split; assumption.
  - inversion H as [|j ? l1 ? Hj H1]; subst. inversion H1 as [|k ? l2 ? Hk H2']; subst. inversion H2'; subst.
    exists 0, j, k. repeat split; assumption.
  - inversion H as [|j ? l1 ? Hj H1]; subst. inversion H1; subst. exists 0, j, 0. repeat split; assumption.
  - inversion H as [|k ? l1 ? Hk H1]; subst. inversion H1; subst. exists 0, 0, k. repeat split; assumption.
  - inversion H; subst. exists 0, 0, 0. repeat split; assumption.
Qed.

(* C06, parallel structured files: whatever the order in which the index file lists the pieces, merging the restrictions
   of a global (x-fastest numbered) field to the pieces gives back the global field — point and cell fields, one to three
   meshed directions, any flat directions *)
Theorem pmerge_is_global (V : Type) (zero : V) (is_point : bool) (g : list V) (piece_fields : list (list V)) :
  length g = nprod (entity_shape is_point (merged_cell_shape dec)) ->
  (forall n, n < length listing ->
     nth n piece_fields [] =
     map (fun k => nth k g zero)
         (piece_entity_indices dec (restrict ms (nth n listing []))
            (entity_shape is_point (piece_shape dec (restrict ms (nth n listing []))))
            (entity_shape is_point (merged_cell_shape dec)))) ->
  pmerge zero exts is_point piece_fields = g.
Proof.
  intros Hlen Hf. unfold pmerge. rewrite decomposition_from_extents.
  apply structured_merge_is_global; [exact dec_nonempty|exact Hlen|].
  intros loc Hloc. rewrite pieces_shape_dec in Hloc.
  destruct (expand_exists loc Hloc) as (i & j & k & Hi & Hj & Hk & E).
  assert (Hin : In [i; j; k] listing) by (apply Hcover, loc3_shape; exists i, j, k; repeat split; assumption).
  destruct (In_nth listing [i; j; k] [] Hin) as (n & Hn & En).
  rewrite <- E, <- En. rewrite (domain_id_from_extents n Hn). apply Hf. exact Hn.
Qed.

End PiecesOfALattice.
