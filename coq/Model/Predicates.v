(* Model/Predicates.v — arrays, shape reconciliation and the three equality predicates of
   /repo/fieldcompare/predicates/_predicates.py (ExactEquality, FuzzyEquality, DefaultEquality),
   including tolerance resolution (numbers, per-component arrays, ScaledTolerance, default eps).
   Executable definitions only. *)
From Coq Require Import String.
From Coq Require Import QArith Qabs ZArith Bool Arith List.
From FC Require Import Model.Scalar.
Import ListNotations.
Local Open Scope nat_scope.

(* ---- scalars and arrays -------------------------------------------------------------- *)
Inductive scalar := SI (z : Z) | SF (q : Q) | SS (s : string).

(* dtype kind of a (non-object) numpy array *)
Inductive dkind := KInt (w : nat) (sgn : bool) | KF32 | KF64 | KStr.

Record arr := { kind : dkind; shape : list nat; data : list scalar }.

Definition prod (l : list nat) : nat := fold_right Nat.mul 1 l.
Definition wf_arr (a : arr) : bool := length (data a) =? prod (shape a).

Inductive res := Ok (b : bool) | Err.

(* ---- _reshape / _check_shapes -------------------------------------------------------- *)
Fixpoint list_nat_eqb (a b : list nat) : bool :=
  match a, b with
  | [], [] => true
  | x :: a', y :: b' => (x =? y) && list_nat_eqb a' b'
  | _, _ => false
  end.

Definition ends_in_one (s : list nat) : bool :=
  match rev s with 1 :: _ => true | _ => false end.

Definition reconcile (s1 s2 : list nat) : list nat * list nat :=
  let s2' := if (length s1 =? length s2 + 1) && ends_in_one s1 then s2 ++ [1] else s2 in
  let s1' := if (length s2 =? length s1 + 1) && ends_in_one s2 then s1 ++ [1] else s1 in
  (s1', s2').

Definition compatible (s1 s2 : list nat) : bool :=
  let (a, b) := reconcile s1 s2 in list_nat_eqb a b.

(* ---- has_floats ---------------------------------------------------------------------- *)
Definition is_float_kind (k : dkind) : bool :=
  match k with KF32 | KF64 => true | _ => false end.
Definition has_floats (a : arr) : bool := is_float_kind (kind a).

(* ---- exact equality ------------------------------------------------------------------ *)
(* np.equal on same-kind arrays; int/float mixtures compare numerically (on the harness's exact
   domain); a string never equals a number *)
Definition scalar_eqb (x y : scalar) : bool :=
  match x, y with
  | SI a, SI b => Z.eqb a b
  | SF a, SF b => Qeq_bool a b
  | SI a, SF b => Qeq_bool (inject_Z a) b
  | SF a, SI b => Qeq_bool a (inject_Z b)
  | SS a, SS b => String.eqb a b
  | _, _ => false
  end.

Fixpoint all2 {A} (f : A -> A -> bool) (l1 l2 : list A) : bool :=
  match l1, l2 with
  | x :: l1', y :: l2' => f x y && all2 f l1' l2'
  | _, _ => true
  end.

Definition exact_eq (a b : arr) : res :=
  if compatible (shape a) (shape b) then Ok (all2 scalar_eqb (data a) (data b)) else Ok false.

(* ---- fuzzy equality ------------------------------------------------------------------ *)
Definition to_q (s : scalar) : option Q :=
  match s with SI z => Some (inject_Z z) | SF q => Some q | SS _ => None end.

Fixpoint to_qs (l : list scalar) : option (list Q) :=
  match l with
  | [] => Some []
  | s :: l' => match to_q s, to_qs l' with Some q, Some r => Some (q :: r) | _, _ => None end
  end.

(* tolerance as given to the predicate *)
Inductive tolspec :=
| TNum (q : Q)                       (* a float *)
| TComp (l : list Q)                 (* ndarray of shape a.shape[1:], flattened row-major *)
| TScaled (base : Q)                 (* ScaledTolerance(base) *)
| TScaledComp (base : Q)             (* ScaledTolerance(base, use_component_magnitudes=True), scalar base *)
| TDefault.                          (* _default_base_tolerance(): eps of the promoted dtype *)

(* resolved tolerance: a scalar or one value per component *)
Inductive rtol := RNum (q : Q) | RComp (l : list Q).

Definition max_abs (l : list Q) : Q := fold_right (fun x m => qmax (Qabs x) m) 0%Q l.

(* maximum |x| per component (column of the (n, k) view) *)
Fixpoint col (k i : nat) (j : nat) (l : list Q) : list Q :=
  match l with
  | [] => []
  | x :: l' => if (j mod k =? i) then x :: col k i (S j) l' else col k i (S j) l'
  end.
Definition max_abs_comp (k : nat) (l : list Q) : list Q :=
  map (fun i => max_abs (col k i 0 l)) (seq 0 k).

Definition f32_ok_int (w : nat) : bool := w <=? 16.

(* float(finfo(promote_types(k1,k2)).eps), 0 for integers, error for anything else *)
Definition default_eps (k1 k2 : dkind) : option Q :=
  match k1, k2 with
  | KStr, _ | _, KStr => None
  | KF64, _ | _, KF64 => Some (dy 1 (-52))
  | KF32, KF32 => Some (dy 1 (-23))
  | KF32, KInt w _ | KInt w _, KF32 => if f32_ok_int w then Some (dy 1 (-23)) else Some (dy 1 (-52))
  | KInt w1 s1, KInt w2 s2 =>
      (* numpy promotes (signed, uint64) to float64 *)
      if (s1 && negb s2 && (w2 =? 64)) || (s2 && negb s1 && (w1 =? 64)) then Some (dy 1 (-52)) else Some 0%Q
  end.

Definition ncomp (s : list nat) : nat := prod (tl s).

Definition resolve (t : tolspec) (k1 k2 : dkind) (s : list nat) (d1 d2 : list Q) : option rtol :=
  match t with
  | TNum q => Some (RNum q)
  | TComp l => if (2 <=? length s) && (length l =? ncomp s) then Some (RComp l) else None
  | TScaled base =>
      match d1, d2 with
      | [], _ | _, [] => None            (* np.max of an empty array raises *)
      | _, _ => Some (RNum (base * qmax (max_abs d1) (max_abs d2)))
      end
  | TScaledComp base =>
      match d1, d2 with
      | [], _ | _, [] => None
      | _, _ =>
          let k := ncomp s in
          let m := map (fun p => qmax (fst p) (snd p)) (combine (max_abs_comp k d1) (max_abs_comp k d2)) in
          Some (RComp (map (fun x => x * base)%Q m))
      end
  | TDefault => match default_eps k1 k2 with Some e => Some (RNum e) | None => None end
  end.

Definition tol_at (k : nat) (t : rtol) (i : nat) : Q :=
  match t with RNum q => q | RComp l => nth (i mod k) l 0%Q end.

Fixpoint fuzzy_all (i : nat) (rel abs : nat -> Q) (d1 d2 : list Q) : bool :=
  match d1, d2 with
  | a :: d1', b :: d2' => fuzzy_q a b (rel i) (abs i) && fuzzy_all (S i) rel abs d1' d2'
  | _, _ => true
  end.

Definition fuzzy_eq (rel abs : tolspec) (a b : arr) : res :=
  if compatible (shape a) (shape b) then
    let s := fst (reconcile (shape a) (shape b)) in
    match to_qs (data a), to_qs (data b) with
    | Some d1, Some d2 =>
        match resolve rel (kind a) (kind b) s d1 d2, resolve abs (kind a) (kind b) s d1 d2 with
        | Some r, Some t =>
            let k := ncomp s in
            Ok (fuzzy_all 0 (tol_at k r) (tol_at k t) d1 d2)
        | _, _ => Err
        end
    | _, _ => Err
    end
  else Ok false.

(* ---- default equality ---------------------------------------------------------------- *)
Definition default_eq (rel abs : tolspec) (a b : arr) : res :=
  if has_floats a || has_floats b then fuzzy_eq rel abs a b else exact_eq a b.
