(* Model/Glob.v — shell-style name patterns as the command line applies them to field names and file paths.

   Mirrors:
     fieldcompare/_cli/_common.py:18-25   PatternFilter: any(fnmatch(name, pattern) for pattern in patterns)
     fieldcompare/_cli/_common.py:28-33   _include_all = PatternFilter(["*"]), _exclude_all = PatternFilter([])
     Python's fnmatch.translate (3.12)    the pattern language itself ( '*', '?', '[seq]', '[!seq]', ranges ), on POSIX
                                          (os.path.normcase is the identity): transcribed below, token by token.
   Characters are code points (N).  The matcher is the declarative one (a '*' may take any number of characters,
   '/' included); that the regular expression fnmatch builds (atomic groups) accepts the same names is part of what
   the correspondence run checks. *)
From Coq Require Import NArith Arith List Bool.
Import ListNotations.
Local Open Scope N_scope.

Notation str := (list N).

Inductive tok :=
| TStar                                   (* '*'  : any run of characters *)
| TAny                                    (* '?'  : any one character; also '[!]'-like sets that exclude nothing *)
| TLit (c : N)                            (* a literal character *)
| TSet (neg : bool) (singles : str) (ranges : list (N * N))   (* '[...]' *)
| TNever.                                 (* a set that became empty: matches nothing *)

Definition c_star : N := 42.   Definition c_qm : N := 63.    Definition c_lb : N := 91.   Definition c_rb : N := 93.
Definition c_bang : N := 33.   Definition c_dash : N := 45.

(* ---- bracket expressions -------------------------------------------------------------------------------------- *)
Fixpoint find_from (c : N) (s : str) (k : nat) : option nat :=     (* first index >= k holding c *)
  match s with
  | [] => None
  | x :: r =>
      match k with
      | O => if x =? c then Some O else option_map S (find_from c r O)
      | S k' => option_map S (find_from c r k')
      end
  end.

Definition slice (s : str) (a b : nat) : str := firstn (b - a) (skipn a s).

(* the chunks between the hyphens that act as range operators (fuel: at most one chunk per character) *)
Fixpoint chunks_go (fuel : nat) (s : str) (i k : nat) : list str :=
  match fuel with
  | O => [skipn i s]
  | S f =>
      match find_from c_dash s k with
      | None => [skipn i s]
      | Some k' => slice s i k' :: chunks_go f s (S k') (k' + 3)
      end
  end.

(* chunks[-1] += '-' when the last chunk is empty *)
Fixpoint fix_last (cs : list str) : list str :=
  match cs with
  | [] => []
  | [c] => [c]
  | c :: ([d] as r) => match d with [] => [c ++ [c_dash]] | _ => c :: r end
  | c :: r => c :: fix_last r
  end.

(* "remove empty ranges", from the right *)
Definition merge_step (c : str) (acc : list str) : list str :=
  match acc with
  | [] => [c]
  | d :: rest => if hd 0 d <? last c 0 then (removelast c ++ tl d) :: rest else c :: d :: rest
  end.
Definition merge_chunks (cs : list str) : list str := fold_right merge_step [] cs.

(* singles and ranges denoted by chunks joined with range hyphens: the last character of a chunk and the first of
   the next one bound a range, everything else stands for itself *)
Fixpoint chunk_items (cs : list str) : str * list (N * N) :=
  match cs with
  | [] => ([], [])
  | [c] => (c, [])
  | c :: ((d :: _) as r) =>
      let '(s, rg) := chunk_items r in
      (* s starts with the characters of d; its first one is the upper end of the range *)
      (removelast c ++ tl s, (last c 0, hd 0 d) :: rg)
  end.

Definition has (c : N) (s : str) : bool := existsb (N.eqb c) s.

Definition bracket (stuff : str) : tok :=
  let stuff' :=
    if has c_dash stuff then
      let k0 := match stuff with x :: _ => if x =? c_bang then 2%nat else 1%nat | [] => 1%nat end in
      merge_chunks (fix_last (chunks_go (length stuff) stuff 0 k0))
    else [stuff] in
  match concat stuff' with
  | [] => TNever
  | _ =>
      match stuff' with
      | [[x]] => if x =? c_bang then TAny else TSet false [x] []
      | _ =>
          let neg := match concat stuff' with x :: _ => x =? c_bang | [] => false end in
          let '(s, rg) := chunk_items stuff' in
          TSet neg (if neg then tl s else s) rg
      end
  end.

(* ---- fnmatch.translate: the token list of a pattern ------------------------------------------------------------ *)
(* position of the ']' that closes a bracket opened just before s (None: no closing bracket, '[' is literal) *)
Definition closing (s : str) : option nat :=
  let j0 := match s with x :: _ => if x =? c_bang then 1%nat else 0%nat | [] => 0%nat end in
  let j1 := match nth_error s j0 with Some x => if x =? c_rb then S j0 else j0 | None => j0 end in
  find_from c_rb s j1.

Fixpoint translate_go (fuel : nat) (p : str) : list tok :=
  match fuel with
  | O => []
  | S f =>
      match p with
      | [] => []
      | c :: r =>
          if c =? c_star then TStar :: translate_go f r
          else if c =? c_qm then TAny :: translate_go f r
          else if c =? c_lb then
            match closing r with
            | None => TLit c :: translate_go f r
            | Some j => bracket (firstn j r) :: translate_go f (skipn (S j) r)
            end
          else TLit c :: translate_go f r
      end
  end.
Definition translate (p : str) : list tok := translate_go (S (length p)) p.

(* ---- matching --------------------------------------------------------------------------------------------------- *)
Definition in_set (neg : bool) (singles : str) (ranges : list (N * N)) (c : N) : bool :=
  xorb neg (has c singles || existsb (fun r => (fst r <=? c) && (c <=? snd r)) ranges).

Fixpoint tmatch (p : list tok) (s : str) : bool :=
  match p with
  | [] => match s with [] => true | _ => false end
  | TStar :: p' =>
      (fix star (s : str) : bool := tmatch p' s || match s with [] => false | _ :: s' => star s' end) s
  | TAny :: p' => match s with [] => false | _ :: s' => tmatch p' s' end
  | TLit c :: p' => match s with [] => false | x :: s' => (x =? c) && tmatch p' s' end
  | TSet neg sg rg :: p' => match s with [] => false | x :: s' => in_set neg sg rg x && tmatch p' s' end
  | TNever :: _ => false
  end.

Definition fnmatch (name pat : str) : bool := tmatch (translate pat) name.

(* PatternFilter *)
Definition pattern_filter (patterns : list str) (name : str) : bool := existsb (fnmatch name) patterns.
Definition include_all : list str := [[c_star]].
Definition exclude_all : list str := [].
