(* Model/Mesh.v — explicit meshes, index-map views (PermutedMesh, mesh/_permuted_mesh.py), orphan stripping
   (_transformations.py:132-177), space-dimension extension (_transformations.py:36-98) and mesh equality
   (mesh/_mesh_equal.py, with the repaired cell-type set comparison).  Coordinates are exact rationals.
   Executable definitions only. *)
From Coq Require Import QArith Qabs Arith Bool List.
From FC Require Import Model.Scalar.
Import ListNotations.
Local Open Scope nat_scope.

Definition point := list Q.

(* cells: one block per cell type, in the mesh's iteration order; a block is the VTK type id and the
   connectivity rows (corner indices) of its cells *)
Record mesh := { pts : list point; cells : list (nat * list (list nat)) }.

Definition npoints (M : mesh) : nat := length (pts M).
Definition cell_types (M : mesh) : list nat := map fst (cells M).

(* ---- index-map views --------------------------------------------------------------------------- *)
Definition gather {A} (d : A) (l : list A) (idx : list nat) : list A := map (fun i => nth i l d) idx.

(* position of c in the permutation: PermutedMesh._make_inverse_point_permutation (inverse[index_map] = arange);
   entries that are not hit stay uninitialised in the code: None here *)
Fixpoint index_of (c : nat) (p : list nat) : option nat :=
  match p with
  | [] => None
  | x :: r => if x =? c then Some 0 else match index_of c r with Some k => Some (S k) | None => None end
  end.

Definition map_row (p : list nat) (row : list nat) : option (list nat) :=
  fold_right (fun c acc => match index_of c p, acc with Some k, Some l => Some (k :: l) | _, _ => None end) (Some []) row.

Fixpoint map_rows (p : list nat) (rows : list (list nat)) : option (list (list nat)) :=
  match rows with
  | [] => Some []
  | r :: rs => match map_row p r, map_rows p rs with Some a, Some b => Some (a :: b) | _, _ => None end
  end.

Fixpoint map_blocks (p : list nat) (bl : list (nat * list (list nat))) : option (list (nat * list (list nat))) :=
  match bl with
  | [] => Some []
  | (t, rows) :: r => match map_rows p rows, map_blocks p r with Some a, Some b => Some ((t, a) :: b) | _, _ => None end
  end.

(* PermutedMesh(mesh, point_permutation = p): points[p], connectivity = inverse[corners].
   None = the view would read an uninitialised inverse entry (a referenced point is not in p) *)
Definition permute_points (M : mesh) (p : list nat) : option mesh :=
  match map_blocks p (cells M) with
  | Some bl => Some {| pts := gather [] (pts M) p; cells := bl |}
  | None => None
  end.

Definition permute_point_data {A} (d : A) (data : list A) (p : list nat) : list A := gather d data p.

(* PermutedMesh(mesh, cell_permutations = k): one index map per block, applied to rows (and to cell data) *)
Definition permute_cells (M : mesh) (k : list (list nat)) : mesh :=
  {| pts := pts M;
     cells := map (fun bk => (fst (fst bk), gather [] (snd (fst bk)) (snd bk))) (combine (cells M) k) |}.

(* ---- strip_orphan_points ----------------------------------------------------------------------- *)
Definition referenced (M : mesh) (i : nat) : bool :=
  existsb (fun b => existsb (fun row => existsb (Nat.eqb i) row) (snd b)) (cells M).

(* the points referenced by at least one cell, in increasing order (the code returns them in the order an
   unstable argsort produces; any enumeration without repetition is accepted by the checker below) *)
Definition strip_map (M : mesh) : list nat := filter (referenced M) (seq 0 (npoints M)).

Fixpoint nodupb (l : list nat) : bool :=
  match l with [] => true | x :: r => negb (existsb (Nat.eqb x) r) && nodupb r end.

(* T3 checker for the implementation's filter map *)
Definition check_strip (M : mesh) (p : list nat) : bool :=
  nodupb p && forallb (fun i => (i <? npoints M) && referenced M i) p
  && forallb (fun i => existsb (Nat.eqb i) p) (strip_map M).

(* T3 checker: p is a permutation of 0..n-1 *)
Definition is_perm (n : nat) (p : list nat) : bool :=
  (length p =? n) && nodupb p && forallb (fun i => i <? n) p.

(* ---- extend_space_dimension_to ----------------------------------------------------------------- *)
Definition pad_row (d : nat) (r : list Q) : list Q := r ++ repeat 0%Q (d - length r).

Definition extend_points (d : nat) (M : mesh) : mesh := {| pts := map (pad_row d) (pts M); cells := cells M |}.

(* vector field rows (n, k): padded to (n, d) when k < d *)
Definition extend_vector (d : nat) (rows : list (list Q)) : list (list Q) := map (pad_row d) rows.

(* tensor field rows (n, k, k) stored as k rows of k: padded to (d, d) with zeros when k < d *)
Definition extend_tensor (d : nat) (rows : list (list (list Q))) : list (list (list Q)) :=
  map (fun t => map (pad_row d) t ++ repeat (repeat 0%Q d) (d - length t)) rows.

(* ---- mesh_equal ---------------------------------------------------------------------------------- *)
Definition compat (t1 t2 : nat) : bool :=          (* CellType.is_compatible_with: pixel~quad, voxel~hexahedron *)
  (t1 =? t2) || ((t1 =? 8) && (t2 =? 9)) || ((t1 =? 9) && (t2 =? 8))
  || ((t1 =? 11) && (t2 =? 12)) || ((t1 =? 12) && (t2 =? 11)).

Definition memb (n : nat) (l : list nat) : bool := existsb (Nat.eqb n) l.

(* the partner of a source cell type among the target's types: the type itself if present, else a compatible one *)
Definition partner (T : list nat) (s : nat) : option nat :=
  if memb s T then Some s else find (compat s) T.

(* one-to-one pairing of the cell types of both meshes (None = "Differing grid cell types") *)
Fixpoint match_types_aux (S T used : list nat) : option (list (nat * nat)) :=
  match S with
  | [] => Some []
  | s :: S' =>
      match partner T s with
      | Some t => if memb t used then None
                  else match match_types_aux S' T (t :: used) with Some l => Some ((s, t) :: l) | None => None end
      | None => None
      end
  end.

Definition match_types (S T : list nat) : option (list (nat * nat)) :=
  if length S =? length T then match_types_aux S T [] else None.

Fixpoint insert_sorted (x : nat) (l : list nat) : list nat :=
  match l with [] => [x] | y :: r => if x <=? y then x :: l else y :: insert_sorted x r end.
Definition sort_row (r : list nat) : list nat := fold_right insert_sorted [] r.

Fixpoint list_eqb (a b : list nat) : bool :=
  match a, b with
  | [], [] => true
  | x :: a', y :: b' => (x =? y) && list_eqb a' b'
  | _, _ => false
  end.

Fixpoint rows_equal (r1 r2 : list (list nat)) : bool :=
  match r1, r2 with
  | [], [] => true
  | a :: r1', b :: r2' => list_eqb (sort_row a) (sort_row b) && rows_equal r1' r2'
  | _, _ => false
  end.

Fixpoint rows_of (t : nat) (bl : list (nat * list (list nat))) : list (list nat) :=
  match bl with [] => [] | (u, rows) :: r => if u =? t then rows else rows_of t r end.

Fixpoint point_close (rel abs : Q) (p q : point) : bool :=
  match p, q with
  | [], [] => true
  | a :: p', b :: q' => fuzzy_q a b rel abs && point_close rel abs p' q'
  | _, _ => false                                   (* different space dimension: shapes differ *)
  end.

Fixpoint points_close (rel abs : Q) (P R : list point) : bool :=
  match P, R with
  | [], [] => true
  | p :: P', q :: R' => point_close rel abs p q && points_close rel abs P' R'
  | _, _ => false
  end.

Definition mesh_equal (rel abs : Q) (A B : mesh) : bool :=
  points_close rel abs (pts A) (pts B) &&
  match match_types (cell_types A) (cell_types B) with
  | Some pairs => forallb (fun st => rows_equal (rows_of (fst st) (cells A)) (rows_of (snd st) (cells B))) pairs
  | None => false
  end.

(* ---- geometric content (what relabeling must conserve) ---------------------------------------- *)
Definition corner_coords (M : mesh) (row : list nat) : list point := map (fun c => nth c (pts M) []) row.
Definition block_geometry (M : mesh) (b : nat * list (list nat)) : list (nat * list point) :=
  map (fun row => (fst b, corner_coords M row)) (snd b).
Definition cell_geometry (M : mesh) : list (nat * list point) := flat_map (block_geometry M) (cells M).

(* ---- MeshFieldsComparator: the retry ladder (mesh/_mesh_fields_comparator.py:54-124) ---------------------------- *)
(* The views of the later stages (extended, stripped + point-sorted, cell-sorted) are inputs: they are whatever the
   transformations produced; the ladder only decides which pair is compared and which verdict is returned. *)
Record ladder_views := { lv_as_is : mesh * mesh; lv_extended : mesh * mesh; lv_sorted_points : mesh * mesh;
                         lv_sorted_cells : mesh * mesh }.

Definition space_dim (M : mesh) : nat := match pts M with p :: _ => length p | [] => 0 end.

(* returns (domain verdict, index of the stage whose views were compared last: 0 as-is, 1 extended, 2 sorted points,
   3 sorted cells) *)
Definition ladder (eq : mesh -> mesh -> bool) (disable_dim disable_reorder both_structured : bool) (v : ladder_views) : bool * nat :=
  let '(a0, b0) := lv_as_is v in
  if eq a0 b0 then (true, 0)
  else
    let dims_differ := negb (space_dim a0 =? space_dim b0) in
    let try_ext := dims_differ && negb disable_dim in
    let '(a1, b1) := lv_extended v in
    if try_ext && eq a1 b1 then (true, 1)
    else if disable_reorder || both_structured then (false, if try_ext then 1 else 0)
    else
      let '(a2, b2) := lv_sorted_points v in
      if eq a2 b2 then (true, 2)
      else let '(a3, b3) := lv_sorted_cells v in (eq a3 b3, 3).

(* ---- the command line's mesh comparison (_cli/_file_comparison.py: _compare_mesh_field_data) ------------------------
   fixed (31ec1de): always through MeshFieldsComparator, which is handed all three options;
   pinned: with --disable-mesh-reordering the plain field data comparator was used — the as-is views only, whatever
   the other options say. *)
Definition cli_mesh_fixed (eq : mesh -> mesh -> bool) (disable_dim disable_reorder both_structured : bool) (v : ladder_views) : bool :=
  fst (ladder eq disable_dim disable_reorder both_structured v).
Definition cli_mesh_pinned (eq : mesh -> mesh -> bool) (disable_dim disable_reorder both_structured : bool) (v : ladder_views) : bool :=
  if disable_reorder then (let '(a0, b0) := lv_as_is v in eq a0 b0)
  else fst (ladder eq disable_dim disable_reorder both_structured v).
