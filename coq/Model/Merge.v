(* Model/Merge.v — the piece merger of /repo/fieldcompare/mesh/_transformations.py
   (merge :111-129, _merge :232-313, _map_duplicate_points :316-346, _filter_external_indices :349-350,
   _map_external_indices :353-362).

   Coordinates are exact integers (the harness uses dyadic coordinates and scales them by a common power of
   two, which preserves order and equality); a point is a `list Z`; a mesh carries its points, its
   connectivity rows per cell type (an association list keyed by the VTK cell type id, mirroring the dict
   `Mesh._corners`), its point fields (association list keyed by a field-name id -> one row per point) and its
   cell fields per cell type and name (mirroring `cell_fields: dict[CellType, dict[str, Array]]` of _merge).
   Field rows are of an arbitrary type V (the merger never looks into them).

   Executable definitions only; the theorems are in Proofs/MergeP.v. *)
From Coq Require Import ZArith Bool Arith List.
Import ListNotations.
Local Open Scope nat_scope.

Definition point := list Z.

(* _is_lex_smaller (:319-325): zip stops at the shorter point *)
Fixpoint lex_lt (p q : point) : bool :=
  match p, q with
  | x :: p', y :: q' => if (x <? y)%Z then true else if (y <? x)%Z then false else lex_lt p' q'
  | _, _ => false
  end.

(* np_all(source.points[c] == target.points[i]) (:344) on rows of equal length *)
Fixpoint point_eqb (p q : point) : bool :=
  match p, q with
  | [], [] => true
  | x :: p', y :: q' => (x =? y)%Z && point_eqb p' q'
  | _, _ => false
  end.

Definition pt (pts : list point) (i : nat) : point := nth i pts [].

(* get_lex_sorting_index_map = np.lexsort (stable): any stable sort of the indices by lexicographic order.
   Here: insertion of the indices n-1, ..., 0, each in front of the first index whose point is not smaller. *)
Fixpoint insert_idx (pts : list point) (i : nat) (l : list nat) : list nat :=
  match l with
  | [] => [i]
  | j :: l' => if lex_lt (pt pts j) (pt pts i) then j :: insert_idx pts i l' else i :: l
  end.

Definition lex_argsort (pts : list point) : list nat :=
  fold_right (insert_idx pts) [] (seq 0 (length pts)).

(* _find_candidate (:327-337): lower bound by bisection; `fuel` replaces the while loop (n steps suffice) *)
Fixpoint bisect (fuel : nat) (sorted : list nat) (pts : list point) (target : point) (lower upper : nat) : nat :=
  match fuel with
  | 0 => lower
  | S f =>
      if lower <? upper then
        let mid := (lower + upper) / 2 in
        if lex_lt (pt pts (nth mid sorted 0)) target
        then bisect f sorted pts target (mid + 1) upper
        else bisect f sorted pts target lower mid
      else lower
  end.

Definition find_candidate (sorted : list nat) (pts : list point) (target : point) : option nat :=
  let n := length pts in
  let lo := bisect n sorted pts target 0 n in
  if lo <? n then Some (nth lo sorted 0) else None.

(* a Python dict built by successive assignments d[k] = v: the list of assignments in program order;
   reading returns the LAST assignment to the key *)
Definition dict := list (nat * nat).
Fixpoint dict_get_first (k : nat) (d : dict) : option nat :=
  match d with
  | [] => None
  | (k', v) :: d' => if k' =? k then Some v else dict_get_first k d'
  end.
Definition dict_get (k : nat) (d : dict) : option nat := dict_get_first k (rev d).
Definition dict_mem (k : nat) (d : dict) : bool :=
  match dict_get k d with Some _ => true | None => false end.

(* _map_duplicate_points(source = piece 2, target = merged so far) (:316-346):
   result[candidate in source] = index in target, target indices visited in increasing order *)
Definition dup_pairs_from (sorted : list nat) (src tgt : list point) : dict :=
  flat_map (fun i =>
              match find_candidate sorted src (pt tgt i) with
              | Some c => if point_eqb (pt src c) (pt tgt i) then [(c, i)] else []
              | None => []
              end) (seq 0 (length tgt)).

Definition dup_map (src tgt : list point) : dict := dup_pairs_from (lex_argsort src) src tgt.

(* _filter_external_indices (:349-350) *)
Definition filter_ext (n : nat) (d : dict) : list nat :=
  filter (fun i => negb (dict_mem i d)) (seq 0 n).

(* _map_external_indices (:353-362): `i` runs over start, start+1, ...; cnt = mapped_index_offset *)
Fixpoint map_ext_aux (d : dict) (offset i cnt k : nat) : list nat :=
  match k with
  | 0 => []
  | S k' =>
      match dict_get i d with
      | Some t => t :: map_ext_aux d offset (S i) (S cnt) k'
      | None => (i + offset - cnt) :: map_ext_aux d offset (S i) cnt k'
      end
  end.
Definition map_ext (n : nat) (d : dict) (offset : nat) : list nat := map_ext_aux d offset 0 0 n.

(* ---- association lists (Python dicts with insertion order) --------------------------------------- *)
Section Assoc.
  Context {A : Type}.
  Fixpoint alookup (k : nat) (l : list (nat * A)) : option A :=
    match l with
    | [] => None
    | (k', a) :: l' => if k' =? k then Some a else alookup k l'
    end.
  Definition amem (k : nat) (l : list (nat * A)) : bool :=
    match alookup k l with Some _ => true | None => false end.
  (* keys of l1 in order (combined with l2's entry where present), then the keys only in l2 in order *)
  Definition merge_assoc (both : A -> A -> A) (only1 only2 : A -> A) (l1 l2 : list (nat * A)) : list (nat * A) :=
    map (fun ka => match alookup (fst ka) l2 with
                   | Some b => (fst ka, both (snd ka) b)
                   | None => (fst ka, only1 (snd ka))
                   end) l1
    ++ map (fun kb => (fst kb, only2 (snd kb))) (filter (fun kb => negb (amem (fst kb) l1)) l2).
End Assoc.

Definition aget {A} (k : nat) (l : list (nat * list A)) : list A :=
  match alookup k l with Some a => a | None => [] end.

(* ---- meshes with fields ----------------------------------------------------------------------- *)
Section Mesh.
  Variable V : Type.
  Variable zero : V.          (* the row of zeros used when a point field is missing on one side *)

  Record mf := {
    pts : list point;
    cells : list (nat * list (list nat));            (* cell type id -> connectivity rows *)
    pdata : list (nat * list V);                     (* point field id -> one row per point *)
    cdata : list (nat * list (nat * list V))         (* cell type id -> field id -> one row per cell *)
  }.

  Definition select {X} (dflt : X) (idx : list nat) (l : list X) : list X := map (fun i => nth i l dflt) idx.
  Definition remap (pm : list nat) (rows : list (list nat)) : list (list nat) :=
    map (map (fun c => nth c pm 0)) rows.

  (* _merge (:232-313) WITHOUT the early return of :247-248 — the repaired behaviour *)
  Definition merge2_fixed (A B : mf) : mf :=
    let d := dup_map (pts B) (pts A) in
    let n2 := length (pts B) in
    let flt := filter_ext n2 d in
    let pm := map_ext n2 d (length (pts A)) in
    {| pts := pts A ++ select [] flt (pts B);
       cells := merge_assoc (fun r1 r2 => r1 ++ remap pm r2) (fun r1 => r1) (remap pm) (cells A) (cells B);
       pdata := merge_assoc (fun r1 r2 => r1 ++ select zero flt r2)
                            (fun r1 => r1 ++ repeat zero (length flt))                (* :289-295, as repaired by the fix of F-C08b *)
                            (fun r2 => repeat zero (length (pts A)) ++ select zero flt r2)   (* :298-307 *)
                            (pdata A) (pdata B);
       cdata := merge_assoc (merge_assoc (fun r1 r2 => r1 ++ r2) (fun r => r) (fun r => r))
                            (fun x => x) (fun x => x) (cdata A) (cdata B) |}.

  (* number of zero rows appended for a point field that only the first piece carries: pinned `len(fields2.domain.points)`
     (finding F-C08b: the field then has more rows than the merged data set has points), repaired `len(points2_filter)` *)
  Definition zero_rows_pinned (A B : mf) : nat := length (pts B).
  Definition zero_rows_fixed (A B : mf) : nat := length (filter_ext (length (pts B)) (dup_map (pts B) (pts A))).

  (* _merge as pinned: `if len(points2_filter) == 0: return fields1` (:247-248) — the second piece is dropped
     altogether, with its cells and cell data, when it contributes no new point (finding F-C06a) *)
  Definition merge2 (A B : mf) : mf :=
    let d := dup_map (pts B) (pts A) in
    if length (filter_ext (length (pts B)) d) =? 0 then A else merge2_fixed A B.

  (* merge (:111-129) *)
  Definition merge_all_with (m2 : mf -> mf -> mf) (pieces : list mf) : option mf :=
    match pieces with
    | [] => None
    | p :: ps => Some (fold_left m2 ps p)
    end.
  Definition merge_all := merge_all_with merge2.
  Definition merge_all_fixed := merge_all_with merge2_fixed.

  (* ---- observables used by the statements ------------------------------------------------------- *)
  (* cells of one type with their corners replaced by coordinates *)
  Definition ccells (ct : nat) (M : mf) : list (list point) :=
    map (map (pt (pts M))) (aget ct (cells M)).
  Definition cfield (ct name : nat) (M : mf) : list V :=
    match alookup ct (cdata M) with Some l => aget name l | None => [] end.
  Definition pfield (name : nat) (M : mf) : list V := aget name (pdata M).

  (* well-formedness of a piece: corner indices in range, points pairwise distinct and of one dimension `dim` *)
  Definition rows_in_range (n : nat) (rows : list (list nat)) : Prop :=
    forall r c, In r rows -> In c r -> c < n.
  Definition wf (dim : nat) (M : mf) : Prop :=
    NoDup (pts M) /\ (forall p, In p (pts M) -> length p = dim) /\
    (forall ct rows, In (ct, rows) (cells M) -> rows_in_range (length (pts M)) rows).
End Mesh.

Arguments pts {V}. Arguments cells {V}. Arguments pdata {V}. Arguments cdata {V}.
Arguments merge2_fixed {V}. Arguments merge2 {V}. Arguments merge_all {V}. Arguments merge_all_fixed {V}.
Arguments merge_all_with {V}. Arguments zero_rows_pinned {V}. Arguments zero_rows_fixed {V}.
Arguments ccells {V}. Arguments cfield {V}. Arguments pfield {V}. Arguments wf {V}.
