(* Model/ReadAs.v — reader selection by --read-as (fieldcompare/_cli/_common.py:83-134): mappings READER[:PATTERN] are
   grouped by reader in order of first appearance; the first reader one of whose patterns matches the file name wins.
   Readers and patterns are numbered; `matches p` is the fnmatch table of the file name (an oracle). *)
From Coq Require Import Arith Bool List.
Import ListNotations.

Definition mapping := (nat * nat)%type.           (* reader id, pattern id *)

Fixpoint readers_in_order (maps : list mapping) (seen : list nat) : list nat :=
  match maps with
  | [] => []
  | (r, _) :: rest => if existsb (Nat.eqb r) seen then readers_in_order rest seen else r :: readers_in_order rest (r :: seen)
  end.

Definition patterns_of (maps : list mapping) (r : nat) : list nat :=
  map snd (filter (fun m => fst m =? r) maps).

Definition select_reader (maps : list mapping) (matches : nat -> bool) : option nat :=
  find (fun r => existsb matches (patterns_of maps r)) (readers_in_order maps []).
