(* Model/Codec.v — the byte-level container of VTK XML files as read by fieldcompare/io/vtk and as written by
   VTUWriter.  The XML text layer is not modelled (expat is an oracle); the model starts at the byte strings
   handed to `Compressor.get_decompressed_data` (inline text of a DataArray, or the appended section).

   bytes are `list N` with every element < 256.

   Mirrors (file:line at the pinned commit):
     io/vtk/_encoders.py:20-40        NoEncoder / Base64Encoder (CPython's lenient base64.b64decode, as observed)
     io/vtk/_compressors.py:27-41     NoCompressor.get_decompressed_data (both header placements)
     io/vtk/_compressors.py:44-96     CompressorBase.get_decompressed_data / _read_header / _uncompress_blocks
     io/vtk/_appendix.py:20-21        VTKXMLAppendix.get(offset)
     io/vtk/_xml_reader.py:91-96      _make_data_array / _reshape_data_array_values
     io/vtk/_xml_reader.py:169-195    _get_data_array_values (binary / appended dispatch)
     io/vtk/_vtu_reader.py:30-71      regrouping of connectivity / cell indices per cell type
     io/vtk/_vtu_writer.py:97-118     VTUWriter._make_data_array_element
   and, written from the VTK file format and not from the reader, the format-side encoder `enc_array`.
   Executable definitions only (the compressor is a Section variable; the harness instantiates it with a per-case
   lookup table computed with the real zlib / lzma / lz4). *)
From Coq Require Import Ascii String NArith ZArith List Bool.
Import ListNotations.
Local Open Scope N_scope.

Definition bytes := list N.

Definition is_byte (b : N) : bool := b <? 256.
Definition wfb (l : bytes) : bool := forallb is_byte l.

(* ---- slices with N indices (Python's s[:n], s[n:]); structural in the list so that a huge header value
        read from a damaged file does not blow up evaluation --------------------------------------------- *)
Fixpoint takeN {A : Type} (n : N) (l : list A) : list A :=
  match l with
  | [] => []
  | x :: r => if n =? 0 then [] else x :: takeN (N.pred n) r
  end.

Fixpoint dropN {A : Type} (n : N) (l : list A) : list A :=
  match l with
  | [] => []
  | x :: r => if n =? 0 then l else dropN (N.pred n) r
  end.

Definition lenN {A : Type} (l : list A) : N := N.of_nat (length l).

Fixpoint sumN (l : list N) : N := match l with [] => 0 | x :: r => x + sumN r end.

Fixpoint list_eqb (a b : bytes) : bool :=
  match a, b with
  | [], [] => true
  | x :: a', y :: b' => (x =? y) && list_eqb a' b'
  | _, _ => false
  end.

(* ================================================================================================ *)
(* base64                                                                                            *)
(* ================================================================================================ *)
Definition pad : N := 61.                                   (* '=' *)

Definition alpha (v : N) : N :=                              (* sextet -> character of the standard alphabet *)
  if v <? 26 then 65 + v
  else if v <? 52 then 97 + (v - 26)
  else if v <? 62 then 48 + (v - 52)
  else if v =? 62 then 43 else 47.

Definition sextet (c : N) : option N :=                      (* binascii's table_a2b_base64 *)
  if (65 <=? c) && (c <=? 90) then Some (c - 65)
  else if (97 <=? c) && (c <=? 122) then Some (c - 97 + 26)
  else if (48 <=? c) && (c <=? 57) then Some (c - 48 + 52)
  else if c =? 43 then Some 62
  else if c =? 47 then Some 63
  else None.

(* base64.b64encode *)
Fixpoint b64enc (l : bytes) : bytes :=
  match l with
  | [] => []
  | [x] => [alpha (x / 4); alpha ((x mod 4) * 16); pad; pad]
  | [x; y] => [alpha (x / 4); alpha ((x mod 4) * 16 + y / 16); alpha ((y mod 16) * 4); pad]
  | x :: y :: z :: r =>
      alpha (x / 4) :: alpha ((x mod 4) * 16 + y / 16) :: alpha ((y mod 16) * 4 + z / 64) :: alpha (z mod 64)
      :: b64enc r
  end.

(* base64.b64decode(s) with validate=False = binascii.a2b_base64(s) in non-strict mode (CPython 3.12,
   Modules/binascii.c): characters outside the alphabet are skipped; '=' is ignored while fewer than two
   sextets of the current quad have been seen; otherwise it counts as padding, and as soon as
   #sextets + #pads >= 4 decoding STOPS (the rest of the input is not looked at); a sextet resets the pad
   counter; input that ends inside a quad is an error ("Incorrect padding").
   q = sextets of the current quad (at most 3). *)
Definition qlen (q : list N) : N := lenN q.

Definition flush (q : list N) : bytes :=
  match q with
  | [a; b] => [a * 4 + b / 16]
  | [a; b; c] => [a * 4 + b / 16; (b mod 16) * 16 + c / 4]
  | _ => []
  end.

Fixpoint b64dec_go (q : list N) (pads : N) (s : bytes) : option bytes :=
  match s with
  | [] => match q with [] => Some [] | _ => None end
  | ch :: s' =>
      if ch =? pad then
        if 2 <=? qlen q then
          if 4 <=? qlen q + (pads + 1) then Some (flush q) else b64dec_go q (pads + 1) s'
        else b64dec_go q pads s'
      else
        match sextet ch with
        | None => b64dec_go q pads s'
        | Some v =>
            match q with
            | [a; b; c] =>
                option_map (app [a * 4 + b / 16; (b mod 16) * 16 + c / 4; (c mod 4) * 64 + v])
                           (b64dec_go [] 0 s')
            | _ => b64dec_go (q ++ [v]) 0 s'
            end
        end
  end.

Definition b64dec (s : bytes) : option bytes := b64dec_go [] 0 s.

(* ---- the Encoder protocol: NoEncoder / Base64Encoder (_encoders.py:20-40) ------------------------- *)
Inductive encoding := Raw | B64.

Definition decode (e : encoding) (d : bytes) : option bytes :=
  match e with Raw => Some d | B64 => b64dec d end.

Definition encode (e : encoding) (d : bytes) : bytes :=
  match e with Raw => d | B64 => b64enc d end.

(* Base64Encoder.encoded_bytes:  -(-decoded_bytes // 3) * 4   (Python floor division = Z.div for a positive divisor) *)
Definition b64_encoded_bytes (n : Z) : Z := (- ((- n) / 3) * 4)%Z.

Definition encoded_bytes (e : encoding) (n : N) : N :=
  match e with Raw => n | B64 => Z.to_N (b64_encoded_bytes (Z.of_N n)) end.

(* ================================================================================================ *)
(* integers <-> bytes                                                                                *)
(* ================================================================================================ *)
Inductive border := LE | BE.

Fixpoint le_bytes (w : nat) (n : N) : bytes :=
  match w with O => [] | S w' => n mod 256 :: le_bytes w' (n / 256) end.

Fixpoint le_int (l : bytes) : N :=
  match l with [] => 0 | b :: r => b + 256 * le_int r end.

Definition int_to_bytes (bo : border) (w : nat) (n : N) : bytes :=
  match bo with LE => le_bytes w n | BE => rev (le_bytes w n) end.

Definition bytes_to_int (bo : border) (l : bytes) : N :=
  match bo with LE => le_int l | BE => le_int (rev l) end.

(* two's complement *)
Definition to_unsigned (w : nat) (z : Z) : N := Z.to_N (z mod 256 ^ Z.of_nat w).
Definition to_signed (w : nat) (n : N) : Z :=
  if n <? 256 ^ N.of_nat w / 2 then Z.of_N n else (Z.of_N n - 256 ^ Z.of_nat w)%Z.

(* consecutive groups of w elements; None unless the length is a multiple of w (fuel = length of the list) *)
Fixpoint split_fuel {A : Type} (fuel : nat) (w : N) (l : list A) : option (list (list A)) :=
  match l with
  | [] => Some []
  | _ :: _ =>
      match fuel with
      | O => None
      | S f =>
          if lenN l <? w then None
          else option_map (cons (takeN w l)) (split_fuel f w (dropN w l))
      end
  end.
Definition splitN {A : Type} (w : N) (l : list A) : option (list (list A)) := split_fuel (length l) w l.

(* np.frombuffer(buf, dtype of width w): the words of a buffer; an error unless len(buf) is a multiple of w *)
Definition words (w : N) (l : bytes) : option (list bytes) := splitN w l.

Definition ints_of (bo : border) (w : N) (l : bytes) : option (list N) :=
  option_map (map (bytes_to_int bo)) (words w l).

(* header types *)
Inductive htype := H32 | H64.
Definition hsz (h : htype) : nat := match h with H32 => 4%nat | H64 => 8%nat end.
Definition hsize (h : htype) : N := N.of_nat (hsz h).
Definition hbound (h : htype) : N := 256 ^ hsize h.

(* ================================================================================================ *)
(* NoCompressor.get_decompressed_data (_compressors.py:31-41)                                        *)
(* ================================================================================================ *)
Definition read_uncompressed (bo : border) (h : htype) (e : encoding) (data : bytes) : option bytes :=
  match decode e data with
  | None => None
  | Some decoded =>
      let nh := hsize h in
      if lenN decoded <? nh then None              (* np.frombuffer(...)[0] on a short buffer raises *)
      else
        let n := bytes_to_int bo (takeN nh decoded) in
        if lenN decoded =? nh then
          (* header was encoded separately *)
          let header_offset := lenN (encode e decoded) in
          match decode e (dropN header_offset data) with
          | None => None
          | Some d2 => Some (takeN n d2)
          end
        else Some (takeN n (dropN nh decoded))
  end.

(* ================================================================================================ *)
(* CompressorBase (_compressors.py:44-96)                                                            *)
(* ================================================================================================ *)
Section Compressed.
  (* _decompress(data, uncompressed_size): zlib / lzma ignore the size, lz4 uses it as output bound *)
  Variable decompress : N -> bytes -> option bytes.
  (* np.concatenate([]) raises "need at least one array to concatenate": a header with zero blocks makes
     _uncompress_blocks fail at the pinned commit (finding F-C05a).  empty_ok = false is the code as it is;
     empty_ok = true is the behaviour after the suggested repair (return b"" for zero blocks). *)
  Variable empty_ok : bool.

  (* _read_header: returns (all header words, offset of the data part in the encoded string) *)
  Definition read_header (bo : border) (h : htype) (e : encoding) (data : bytes) : option (list N * N) :=
    let hs := hsize h in
    let dh := 3 * hs in
    let eh := encoded_bytes e dh in
    match decode e (takeN eh data) with
    | None => None
    | Some d1 =>
        match ints_of bo hs (takeN dh d1) with
        | None => None
        | Some header =>
            match header with
            | [] => None                                              (* header[0] *)
            | nb :: _ =>
                let dbs := nb * hs in
                let ebs := encoded_bytes e dbs in
                match decode e (takeN ebs (dropN eh data)) with
                | None => None
                | Some d2 =>
                    match ints_of bo hs (takeN ebs d2) with           (* the redundant [:encoded_block_sizes_bytes] *)
                    | None => None
                    | Some sizes => Some (header ++ sizes, eh + ebs)
                    end
                end
            end
        end
    end.

  (* decoded_data[block_offsets[i] : block_offsets[i+1]] for consecutive i = successive take/drop *)
  Fixpoint blocks (bs : N) (sizes : list N) (d : bytes) : option bytes :=
    match sizes with
    | [] => Some []
    | c :: r =>
        match decompress bs (takeN c d) with
        | None => None
        | Some b => option_map (app b) (blocks bs r (dropN c d))
        end
    end.

  Definition uncompress_blocks (h : htype) (bs : N) (sizes : list N) (d : bytes) : option bytes :=
    if hbound h <=? sumN sizes then None                  (* np.array(offsets, dtype=header_type): OverflowError *)
    else match sizes with
         | [] => if empty_ok then Some [] else None           (* np.concatenate([]) raises ValueError *)
         | _ => blocks bs sizes d
         end.

  Definition read_compressed (bo : border) (h : htype) (e : encoding) (data : bytes) : option bytes :=
    match read_header bo h e data with
    | None => None
    | Some (all, off) =>
        match all with
        | _ :: bs :: rest =>                                    (* raw_block_size = header[1] *)
            let block_sizes := skipn 1 rest in                   (* header[3:] *)
            let edb := encoded_bytes e (sumN block_sizes) in
            match decode e (takeN edb (dropN off data)) with
            | None => None
            | Some dd => uncompress_blocks h bs block_sizes dd
            end
        | _ => None
        end
    end.

  (* self._compressor.get_decompressed_data(data, encoder) *)
  Definition get_decompressed (compressed : bool) (bo : border) (h : htype) (e : encoding) (data : bytes)
    : option bytes :=
    if compressed then read_compressed bo h e data else read_uncompressed bo h e data.

  (* _get_data_array_values for format="binary" (inline text, always base64) and format="appended"
     (VTKXMLAppendix.get(offset) = content[offset:], encoder of the appendix) *)
  Inductive placement := Inline (text : bytes) | Appended (offset : N).

  Definition read_data_array (compressed : bool) (bo : border) (h : htype) (app_enc : encoding)
             (appendix : bytes) (p : placement) : option bytes :=
    match p with
    | Inline text => get_decompressed compressed bo h B64 text
    | Appended off => get_decompressed compressed bo h app_enc (dropN off appendix)
    end.
End Compressed.

(* per-case oracle for the external compressor: table of (compressed block, decompressed block) *)
Fixpoint lookup (tbl : list (bytes * bytes)) (c : bytes) : option bytes :=
  match tbl with
  | [] => None
  | (k, v) :: r => if list_eqb k c then Some v else lookup r c
  end.
Definition table_decompress (tbl : list (bytes * bytes)) (bs : N) (c : bytes) : option bytes := lookup tbl c.

(* ================================================================================================ *)
(* The format side: how a VTK-conforming writer stores one array (written from the file format)      *)
(* ================================================================================================ *)
Section FormatSide.
  Variable compress : bytes -> bytes.

  Definition header_bytes (bo : border) (h : htype) (ints : list N) : bytes :=
    concat (map (int_to_bytes bo (hsz h)) ints).

  (* blocks of bs bytes, the last one possibly shorter; no block for an empty payload *)
  Fixpoint chunks_fuel (fuel : nat) (bs : N) (x : bytes) : list bytes :=
    match x with
    | [] => []
    | _ :: _ => match fuel with
                | O => [x]
                | S f => takeN bs x :: chunks_fuel f bs (dropN bs x)
                end
    end.
  Definition chunks (bs : N) (x : bytes) : list bytes := chunks_fuel (length x) bs x.

  (* (header, data) before any base64 encoding; comp = None | Some block_size *)
  Definition enc_segments (bo : border) (h : htype) (comp : option N) (x : bytes) : bytes * bytes :=
    match comp with
    | None => (header_bytes bo h [lenN x], x)
    | Some bs =>
        let cs := map compress (chunks bs x) in
        (header_bytes bo h ([lenN cs; bs; lenN x mod bs] ++ map lenN cs), concat cs)
    end.

  (* the stored byte string of one array: inline text or its segment of the appended section.
     Uncompressed base64: one string for header ++ data (hsep = false) or header and data encoded separately
     (hsep = true; both occur in files written by VTK versions / other writers); compressed base64: header and
     data are separate strings; raw: plain concatenation. *)
  Definition enc_array (bo : border) (h : htype) (comp : option N) (e : encoding) (hsep : bool) (x : bytes) : bytes :=
    let (hd, d) := enc_segments bo h comp x in
    match e with
    | Raw => hd ++ d
    | B64 => match comp, hsep with
             | None, false => b64enc (hd ++ d)
             | _, _ => b64enc hd ++ b64enc d
             end
    end.

  (* appended section: concatenation of the arrays' segments, offsets = running length *)
  Fixpoint offsets_from (start : N) (segs : list bytes) : list N :=
    match segs with [] => [] | s :: r => start :: offsets_from (start + lenN s) r end.

  (* a whole file at the level below XML: one configuration for all arrays (the VTKFile attributes byte_order,
     header_type, compressor; DataArray format; AppendedData encoding), the stored form of every array and the
     appended section.  `trailer` is whatever follows the last array inside <AppendedData> (white space). *)
  Inductive fmt := FBinary | FAppB64 | FAppRaw.
  Record cfg := { c_fmt : fmt; c_comp : option N; c_bo : border; c_h : htype; c_hsep : bool }.
  Definition cfg_enc (c : cfg) : encoding := match c_fmt c with FAppRaw => Raw | _ => B64 end.
  Definition cfg_compressed (c : cfg) : bool := match c_comp c with None => false | Some _ => true end.
  Definition seg (c : cfg) (x : bytes) : bytes :=
    enc_array (c_bo c) (c_h c) (c_comp c) (cfg_enc c) (c_hsep c) x.

  Definition vtk_encode (c : cfg) (arrays : list bytes) (trailer : bytes) : list placement * bytes :=
    let segs := map (seg c) arrays in
    match c_fmt c with
    | FBinary => (map Inline segs, [])
    | _ => (map Appended (offsets_from 0 segs), concat segs ++ trailer)
    end.
End FormatSide.

(* the reader applied to array number i of a file *)
Definition read_file_array (decompress : N -> bytes -> option bytes) (empty_ok : bool) (c : cfg)
           (file : list placement * bytes) (i : nat) : option bytes :=
  match nth_error (fst file) i with
  | None => None
  | Some p => read_data_array decompress empty_ok (cfg_compressed c) (c_bo c) (c_h c) (cfg_enc c) (snd file) p
  end.

(* ================================================================================================ *)
(* values: np.frombuffer(payload, dtype.newbyteorder(bo)), reshape with NumberOfComponents            *)
(* ================================================================================================ *)
(* the ten VTK numeric types: width in bytes, signed integer? (floats are carried as unsigned bit patterns) *)
Inductive vtype := VInt (w : nat) | VUInt (w : nat) | VFloat (w : nat).
Definition vwidth (t : vtype) : nat := match t with VInt w | VUInt w | VFloat w => w end.

Definition value_of (t : vtype) (n : N) : Z :=
  match t with VInt w => to_signed w n | _ => Z.of_N n end.
Definition unsigned_of (t : vtype) (z : Z) : N :=
  match t with VInt w => to_unsigned w z | _ => Z.to_N z end.

Definition decode_values (bo : border) (t : vtype) (payload : bytes) : option (list Z) :=
  option_map (map (value_of t)) (ints_of bo (N.of_nat (vwidth t)) payload).

Definition encode_values (bo : border) (t : vtype) (vals : list Z) : bytes :=
  concat (map (fun z => int_to_bytes bo (vwidth t) (unsigned_of t z)) vals).

(* _reshape_data_array_values: flat for ncomps <= 1, else rows of ncomps entries (numpy reshape fails unless
   len(values) = int(len/ncomps) * ncomps); a flat array is represented as rows of one entry *)
Definition reshape {A : Type} (ncomps : N) (vals : list A) : option (list (list A)) :=
  if ncomps <=? 1 then Some (map (fun v => [v]) vals) else splitN ncomps vals.

(* ================================================================================================ *)
(* VTUReader._make_mesh: cells regrouped per cell type (ascending type id = np.unique)               *)
(* ================================================================================================ *)
Fixpoint insert_uniq (t : N) (l : list N) : list N :=
  match l with
  | [] => [t]
  | u :: r => if t <? u then t :: l else if t =? u then l else u :: insert_uniq t r
  end.
Definition unique_sorted (l : list N) : list N := fold_right insert_uniq [] l.

(* indices i (counted from `from`) with types[i] = t *)
Fixpoint indices_of (t : N) (from : N) (types : list N) : list N :=
  match types with
  | [] => []
  | u :: r => if u =? t then from :: indices_of t (from + 1) r else indices_of t (from + 1) r
  end.

Definition nthN {A : Type} (l : list A) (i : N) (d : A) : A := nth (N.to_nat i) l d.

(* corners of all cells of type t (_vtu_reader.py:49-70, as repaired by the fix of F-C05b): every cell takes the corners between
   its own two offsets — the fast path for a uniform corner count and the per-cell path for polygons with differing corner
   counts give the same rows; offs0 = [0] ++ offsets *)
Definition cells_of_type (conn : list N) (offs0 : list N) (types : list N) (t : N) : list (list N) :=
  map (fun i => takeN (nthN offs0 (i + 1) 0 - nthN offs0 i 0) (dropN (nthN offs0 i 0) conn)) (indices_of t 0 types).

Definition regroup_cells (conn offsets types : list N) : list (N * list (list N)) :=
  map (fun t => (t, cells_of_type conn (0 :: offsets) types t)) (unique_sorted types).

(* _make_cell_data_array: entire_array[index_map[ct]] for each cell type of the mesh *)
Definition regroup_cell_data {A : Type} (rows : list A) (types : list N) (d : A) : list (N * list A) :=
  map (fun t => (t, map (fun i => nthN rows i d) (indices_of t 0 types))) (unique_sorted types).

(* ================================================================================================ *)
(* VTUWriter._make_data_array_element (_vtu_writer.py:97-118)                                        *)
(*   text = b64encode( uint64(len(values) * ncomps * itemsize).tobytes() ++ values.flatten().tobytes() )   *)
(*   header_type = UInt64, byte order = the machine's; `rows` are the entries of the array (each with    *)
(*   ncomps scalars, already as the bytes of one scalar each)                                            *)
(* ================================================================================================ *)
Definition flatten_rows {A : Type} (rows : list (list A)) : list A := concat rows.

Definition writer_ncomps {A : Type} (rows : list (list A)) : option N :=
  match rows with
  | [] => None                      (* "Cannot deduce number of components from empty array" *)
  | r :: _ => Some (lenN r)
  end.

Definition write_data_array (bo : border) (t : vtype) (ncomps : N) (rows : list (list Z)) : bytes :=
  let num_bytes := lenN rows * ncomps * N.of_nat (vwidth t) in
  b64enc (int_to_bytes bo 8 num_bytes ++ encode_values bo t (flatten_rows rows)).

(* what the reader makes of the writer's element: header_type UInt64, no compressor, inline base64 *)
Definition read_written_array (bo : border) (t : vtype) (ncomps : N) (text : bytes) : option (list (list Z)) :=
  match read_uncompressed bo H64 B64 text with
  | None => None
  | Some payload =>
      match decode_values bo t payload with
      | None => None
      | Some vals => reshape ncomps vals
      end
  end.

(* VTUWriter._make_3d: points padded with zeros to three coordinates *)
Definition pad3 {A : Type} (zero : A) (p : list A) : list A :=
  match p with
  | [x] => [x; zero; zero]
  | [x; y] => [x; y; zero]
  | _ => p
  end.

(* VTUWriter: cells are emitted type by type in the mesh's order of cell types; connectivity = all corners,
   offsets = running corner count, types = type id per cell *)
Definition writer_cells (groups : list (N * list (list N))) : list (N * list N) :=
  concat (map (fun g => map (fun c => (fst g, c)) (snd g)) groups).
Definition writer_connectivity (groups : list (N * list (list N))) : list N :=
  concat (map snd (writer_cells groups)).
Fixpoint running (acc : N) (l : list N) : list N :=
  match l with [] => [] | x :: r => (acc + x) :: running (acc + x) r end.
Definition writer_offsets (groups : list (N * list (list N))) : list N :=
  running 0 (map (fun c => lenN (snd c)) (writer_cells groups)).
Definition writer_types (groups : list (N * list (list N))) : list N := map fst (writer_cells groups).

(* ================================================================================================ *)
(* Tables: _write_table (io/__init__.py:129-136) and the line / field structure seen by CSVFieldReader  *)
(* (np.genfromtxt with delimiter "," and names=True: lines split at newlines, blank lines skipped,      *)
(*  fields split at the delimiter, first line = names).  Cells are the printed strings.                 *)
(* ================================================================================================ *)
Fixpoint join (sep : N) (fs : list bytes) : bytes :=
  match fs with
  | [] => []
  | f :: r => match r with [] => f | _ :: _ => f ++ sep :: join sep r end
  end.

Fixpoint split_go (sep : N) (cur : bytes) (s : bytes) : list bytes :=
  match s with
  | [] => [rev cur]
  | c :: r => if c =? sep then rev cur :: split_go sep [] r else split_go sep (c :: cur) r
  end.
Definition split (sep : N) (s : bytes) : list bytes := split_go sep [] s.

Definition comma : N := 44.
Definition newline : N := 10.

Definition write_table (names : list bytes) (rows : list (list bytes)) : bytes :=
  concat (map (fun line => join comma line ++ [newline]) (names :: rows)).

Definition nonempty (l : bytes) : bool := match l with [] => false | _ => true end.

Definition read_table (s : bytes) : option (list bytes * list (list bytes)) :=
  match map (split comma) (filter nonempty (split newline s)) with
  | [] => None
  | names :: rows => Some (names, rows)
  end.


(* ================================================================================================ *)
(* harness interface: bytes as hexadecimal string literals                                           *)
(* ================================================================================================ *)
Definition hexval (c : ascii) : N :=
  let n := N_of_ascii c in
  if (48 <=? n) && (n <=? 57) then n - 48 else if (97 <=? n) && (n <=? 102) then n - 87 else 0.

Fixpoint hexb (s : string) : bytes :=
  match s with
  | String a (String b r) => (16 * hexval a + hexval b) :: hexb r
  | _ => []
  end.

Definition opt_bytes_eqb (a b : option bytes) : bool :=
  match a, b with
  | Some x, Some y => list_eqb x y
  | None, None => true
  | _, _ => false
  end.
