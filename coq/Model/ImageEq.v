(* Model/ImageEq.v — ImageMesh.equals (mesh/_structured_mesh.py:297-323): same extents, and origin, spacing and basis
   fuzzy-equal parameter by parameter (tolerances of the receiver). *)
From Coq Require Import QArith Arith Bool List.
From FC Require Import Model.Scalar Model.Mesh Model.Structured.
Import ListNotations.

Record image := { im_extents : list nat; im_origin : qvec; im_spacing : qvec; im_basis : list qvec }.

Fixpoint vec_close (rel abs : Q) (a b : qvec) : bool :=
  match a, b with
  | [], [] => true
  | x :: a', y :: b' => fuzzy_q x y rel abs && vec_close rel abs a' b'
  | _, _ => false
  end.

Fixpoint nat_list_eqb (a b : list nat) : bool :=
  match a, b with
  | [], [] => true
  | x :: a', y :: b' => Nat.eqb x y && nat_list_eqb a' b'
  | _, _ => false
  end.

Definition image_equals (rel abs : Q) (A B : image) : bool :=
  nat_list_eqb (im_extents A) (im_extents B)
  && vec_close rel abs (im_origin A) (im_origin B)
  && vec_close rel abs (im_spacing A) (im_spacing B)
  && vec_close rel abs (concat (im_basis A)) (concat (im_basis B)).

Definition image_mesh_points (A : image) : list qvec :=
  image_points (im_origin A) (im_spacing A) (im_basis A) (im_extents A).
