(* Model/Structured.v — implicit numbering of structured grids and the structured piece merger.

   mirrors /repo/fieldcompare/mesh/_structured_mesh.py
     _locations_in :449-450, _StructuredMeshBase.connectivity :59-102, _cell_type :186-187,251-252,331-332,
     RectilinearMesh.points :213-222, ImageMesh.points :285-295, StructuredFieldMerger :335-438,
   /repo/fieldcompare/mesh/_cell_type.py (_reorder_quad_pixel, _reorder_hex_voxel :84-91),
   /repo/fieldcompare/io/vtk/_pvtk_readers.py (_get_structured_decomposition :150-175, _merge_point_fields :123-131),
   /repo/fieldcompare/io/vtk/_vts_reader.py :28-35 and /repo/fieldcompare/mesh/meshio_utils.py :23-29 (from_meshio).

   Executable definitions only; theorems in Proofs/StructuredP.v. *)
From Coq Require Import QArith ZArith Bool Arith List.
Import ListNotations.
Local Open Scope nat_scope.

(* ---- x-fastest products ------------------------------------------------------------------------ *)
(* itertools.product over the reversed lists with every tuple reversed: the first list varies fastest *)
Fixpoint prodl {A : Type} (ls : list (list A)) : list (list A) :=
  match ls with
  | [] => [[]]
  | l :: rest => flat_map (fun tl => map (fun x => x :: tl) l) (prodl rest)
  end.

(* _locations_in (:449-450) *)
Definition locations_in (shape : list nat) : list (list nat) := prodl (map (seq 0) shape).

Definition nprod (l : list nat) : nat := fold_right Nat.mul 1 l.
Definition nsum (l : list nat) : nat := fold_right Nat.add 0 l.

(* [1; m0; m0*m1; ...]  (accumulate(shape, mul) with 1 inserted in front and the last entry dropped, :415-417;
   likewise `offsets` of connectivity :70 is the tail of this list) *)
Fixpoint mults (shape : list nat) : list nat :=
  match shape with
  | [] => []
  | m :: ms => 1 :: map (Nat.mul m) (mults ms)
  end.

Fixpoint dot (a b : list nat) : nat :=
  match a, b with
  | x :: a', y :: b' => x * y + dot a' b'
  | _, _ => 0
  end.

(* the mixed-radix (Horner) form of the same number; used by the statements *)
Fixpoint flat_index (shape loc : list nat) : nat :=
  match shape, loc with
  | m :: ms, i :: is' => i + m * flat_index ms is'
  | _, _ => 0
  end.

Fixpoint map2 {A B C : Type} (f : A -> B -> C) (a : list A) (b : list B) : list C :=
  match a, b with
  | x :: a', y :: b' => f x y :: map2 f a' b'
  | _, _ => []
  end.

(* ---- connectivity (:59-102) --------------------------------------------------------------------- *)
Definition nonzero_extents (e : list nat) : list nat := filter (fun x => 0 <? x) e.

Definition p0_of (ne loc : list nat) : nat := dot loc (mults (map S ne)).          (* _get_p0 :73-74 *)

Definition voxel_corners (ne loc : list nat) : list nat :=
  let p0 := p0_of ne loc in
  let off := tl (mults (map S ne)) in
  match length ne with
  | 1 => [p0; p0 + 1]
  | 2 => let p2 := p0 + nth 0 off 0 in [p0; p0 + 1; p2; p2 + 1]
  | 3 => let p2 := p0 + nth 0 off 0 in
         let p5 := p0 + nth 1 off 0 in
         let p7 := p5 + nth 0 off 0 in
         [p0; p0 + 1; p2; p2 + 1; p5; p5 + 1; p7; p7 + 1]
  | _ => repeat 0 (2 ^ length ne)       (* dimension 0: zeros(shape=(1, 1)); outside the property's quantifier *)
  end.

Inductive grid_kind := Curvilinear | Rectilinear | Image.     (* StructuredMesh | RectilinearMesh | ImageMesh *)

(* VTK cell type ids: LINE 3, PIXEL 8, QUAD 9, VOXEL 11, HEXAHEDRON 12;  [line, quad, hex][dim - 1] *)
Definition cell_type_of (k : grid_kind) (dim : nat) : nat :=
  match k, dim with
  | _, 1 => 3
  | Curvilinear, 2 => 9
  | Curvilinear, _ => 12
  | _, 2 => 8
  | _, _ => 11
  end.

Definition reorder (idx row : list nat) : list nat := map (fun i => nth i row 0) idx.
Definition quad_pixel_map : list nat := [0; 1; 3; 2].
Definition hex_voxel_map : list nat := [0; 1; 3; 2; 4; 5; 7; 6].

Definition connectivity (k : grid_kind) (ct : nat) (extents : list nat) : list (list nat) :=
  let ne := nonzero_extents extents in
  if ct =? cell_type_of k (length ne) then
    let rows := map (voxel_corners ne) (locations_in ne) in
    if ct =? 9 then map (reorder quad_pixel_map) rows
    else if ct =? 12 then map (reorder hex_voxel_map) rows
    else rows
  else [].

Definition num_cells (extents : list nat) : nat := nprod (nonzero_extents extents).
Definition num_points (extents : list nat) : nat := nprod (map S extents).

(* ---- points (:213-222, :285-295), exact in Q ---------------------------------------------------- *)
Definition qvec := list Q.
Fixpoint qdot (a b : qvec) : Q :=
  match a, b with
  | x :: a', y :: b' => (x * y + qdot a' b')%Q
  | _, _ => 0%Q
  end.
Definition mat_vec (B : list qvec) (v : qvec) : qvec := map (fun row => qdot row v) B.
Definition inject_nat (n : nat) : Q := inject_Z (Z.of_nat n).

(* origin + basis . (spacing * ituple) *)
Definition image_point (o s : qvec) (B : list qvec) (loc : list nat) : qvec :=
  map2 Qplus o (mat_vec B (map2 Qmult s (map inject_nat loc))).
Definition image_points (o s : qvec) (B : list qvec) (extents : list nat) : list qvec :=
  map (image_point o s B) (locations_in (map S extents)).

(* an empty ordinate vector is replaced by [0.0] (:202) *)
Definition fix_ordinates (o : qvec) : qvec := match o with [] => [0%Q] | _ => o end.
Definition rect_points (ordinates : list qvec) : list qvec := prodl (map fix_ordinates ordinates).

Definition identity3 : list qvec := [[1%Q; 0%Q; 0%Q]; [0%Q; 1%Q; 0%Q]; [0%Q; 0%Q; 1%Q]].
Definition ordinates_of (o s : qvec) (extents : list nat) : list qvec :=
  map2 (fun os e => map (fun i => (fst os + snd os * inject_nat i)%Q) (seq 0 (S e))) (combine o s) extents.

(* ---- StructuredFieldMerger (:335-438) ----------------------------------------------------------- *)
Definition pieces_shape (dec : list (list nat)) : list nat := map (@length nat) dec.
Definition merged_cell_shape (dec : list (list nat)) : list nat := map nsum dec.
Definition merged_point_shape (dec : list (list nat)) : list nat := map S (merged_cell_shape dec).
Definition piece_shape (dec : list (list nat)) (loc : list nat) : list nat :=
  map2 (fun sizes p => nth p sizes 0) dec loc.
(* _compute_piece_index_offsets (:425-435): sum of the sizes of the pieces below, per direction *)
Definition piece_index_offsets (dec : list (list nat)) (loc : list nat) : list nat :=
  map2 (fun sizes p => nsum (firstn p sizes)) dec loc.
(* _piece_entity_indices (:411-423) *)
Definition piece_entity_indices (dec : list (list nat)) (loc pshape mshape : list nat) : list nat :=
  map (fun it => dot (map2 Nat.add it (piece_index_offsets dec loc)) (mults mshape)) (locations_in pshape).

Fixpoint upd {V : Type} (l : list V) (i : nat) (v : V) : list V :=
  match l, i with
  | [], _ => []
  | _ :: t, 0 => v :: t
  | h :: t, S i' => h :: upd t i' v
  end.
(* merged_values[indices] = field_values *)
Fixpoint scatter {V : Type} (l : list V) (idx : list nat) (vals : list V) : list V :=
  match idx, vals with
  | i :: idx', v :: vals' => scatter (upd l i v) idx' vals'
  | _, _ => l
  end.

Definition entity_shape (is_point : bool) (s : list nat) : list nat := if is_point then map S s else s.

(* _merge (:387-403); `field_of` is the callback piece location -> values on that piece *)
Definition smerge {V : Type} (zero : V) (dec : list (list nat)) (is_point : bool) (field_of : list nat -> list V) : list V :=
  let mshape := entity_shape is_point (merged_cell_shape dec) in
  fold_left (fun acc loc =>
               scatter acc (piece_entity_indices dec loc (entity_shape is_point (piece_shape dec loc)) mshape) (field_of loc))
            (locations_in (pieces_shape dec)) (repeat zero (nprod mshape)).

(* numeric type of the merged array: the pinned code allocates with make_zeros(shape=...) i.e. float64 whatever the
   pieces hold (:390,:395, finding F-C06b); the repaired code allocates with the dtype of the first piece *)
Inductive dtype := F64 | F32 | I64 | I32 | I16 | I8 | U64 | U32 | U16 | U8.
Definition smerge_dtype_pinned (_ : dtype) : dtype := F64.
Definition smerge_dtype_fixed (d : dtype) : dtype := d.

(* ---- _get_structured_decomposition (_pvtk_readers.py :150-175) ---------------------------------- *)
(* np.unique: sorted, without repetitions *)
Fixpoint insert_unique (x : Z) (l : list Z) : list Z :=
  match l with
  | [] => [x]
  | y :: l' => if (x <? y)%Z then x :: l else if (x =? y)%Z then l else y :: insert_unique x l'
  end.
Definition unique_sorted (l : list Z) : list Z := fold_right insert_unique [] l.

Fixpoint index_of (x : Z) (l : list Z) : nat :=
  match l with
  | [] => 0
  | y :: l' => if (x =? y)%Z then 0 else S (index_of x l')
  end.

Definition axis_begins (exts : list (list Z)) (d : nat) : list Z := map (fun e => nth (2 * d) e 0%Z) exts.
Definition axis_ends (exts : list (list Z)) (d : nat) : list Z := map (fun e => nth (2 * d + 1) e 0%Z) exts.

(* sizes_along_axis (:160-162) for the three directions *)
Definition sizes_along_axis (exts : list (list Z)) : list (list Z) :=
  map (fun d => map2 (fun e b => (e - b)%Z) (unique_sorted (axis_ends exts d)) (unique_sorted (axis_begins exts d)))
      [0; 1; 2].
Definition has_dimension (sizes : list (list Z)) : list bool :=
  map (fun s => (0 <? nth 0 s 0)%Z) sizes.
Definition meshed_dirs (sizes : list (list Z)) : list nat :=
  filter (fun d => nth d (has_dimension sizes) false) [0; 1; 2].

(* location of a piece in the piece lattice (:169-173) *)
Definition piece_location (exts : list (list Z)) (e : list Z) : list nat :=
  map (fun d => index_of (nth (2 * d) e 0%Z) (unique_sorted (axis_begins exts d))) (meshed_dirs (sizes_along_axis exts)).

Fixpoint list_nat_eqb (a b : list nat) : bool :=
  match a, b with
  | [], [] => true
  | x :: a', y :: b' => (x =? y) && list_nat_eqb a' b'
  | _, _ => false
  end.

(* order[location] (:165-174): zero-initialised, the last piece listed at a location wins *)
Definition domain_id (exts : list (list Z)) (loc : list nat) : nat :=
  fold_left (fun acc ie => if list_nat_eqb (piece_location exts (snd ie)) loc then fst ie else acc)
            (combine (seq 0 (length exts)) exts) 0.

(* the decomposition handed to the StructuredFieldMerger (:106-108): meshed directions only *)
Definition merger_decomposition (exts : list (list Z)) : list (list nat) :=
  let sizes := sizes_along_axis exts in
  map (fun d => map Z.to_nat (nth d sizes [])) (meshed_dirs sizes).
Definition merged_extents (exts : list (list Z)) : list Z :=
  map (fun s => fold_right Z.add 0%Z s) (sizes_along_axis exts).

(* _merge_point_fields / _merge_cell_fields (:123-148): the callback picks the listed piece sitting at `loc` *)
Definition pmerge {V : Type} (zero : V) (exts : list (list Z)) (is_point : bool) (piece_fields : list (list V)) : list V :=
  smerge zero (merger_decomposition exts) is_point (fun loc => nth (domain_id exts loc) piece_fields []).

(* ---- PVTRReader._make_structured_mesh (_pvtk_readers.py :217-239): ordinates of the merged rectilinear grid ---------- *)
(* numpy `a[off : off + n] = vals` (the slice is cut at the end of the array; a length mismatch raises unless n = 1) *)
Definition write_slice (l : qvec) (off : nat) (vals : qvec) : option qvec :=
  let n := length vals in
  let m := Nat.min n (length l - off) in
  if m =? n then Some (firstn off l ++ vals ++ skipn (off + n) l)
  else if n =? 1 then Some (firstn off l ++ repeat (nth 0 vals 0%Q) m ++ skipn (off + m) l)
  else None.

(* one pass of the assembly loop (:241-245): the piece's ordinates are written at the running offset, which then advances
   to the piece's last ordinate (shared with the next piece) *)
Definition astep (st : option qvec * nat) (po : qvec) : option qvec * nat :=
  match fst st with
  | None => st
  | Some acc => (write_slice acc (snd st) po, snd st + (length po - 1))
  end.

(* location of the i-th piece along `direction` (:229).  Pinned: `tuple(i if k == direction else 0 for k in
   range(decomposition.dimension()))` compares a POSITION k among the meshed directions with the space DIRECTION — right
   only when the meshed directions are a prefix of (x, y, z) (finding F-C06c).  Repaired: compare directions. *)
Definition pvtr_location (repaired : bool) (meshed : list nat) (direction i : nat) : list nat :=
  if repaired then map (fun d => if d =? direction then i else 0) meshed
  else map (fun k => if k =? direction then i else 0) (seq 0 (length meshed)).

(* piece_ords: for every listed piece its three ordinate vectors.  Directions that are not meshed keep the zeros(1) they
   were initialised with (:225) in the pinned code (finding F-C06e: the coordinate of a flat direction is lost); the repaired
   code takes them from the first piece. *)
Definition pvtr_ordinates (fix_c fix_e : bool) (exts : list (list Z)) (piece_ords : list (list qvec)) : option (list qvec) :=
  let sizes := sizes_along_axis exts in
  let meshed := meshed_dirs sizes in
  let mext := merged_extents exts in
  let one (d : nat) : option qvec :=
    if existsb (Nat.eqb d) meshed then
      fst (fold_left (fun (st : option qvec * nat) i =>
                        match fst st with
                        | None => st
                        | Some acc =>
                            let loc := pvtr_location fix_c meshed d i in
                            (* order[loc] raises an IndexError when loc lies outside the piece lattice *)
                            if forallb (fun im => fst im <? snd im) (combine loc (pieces_shape (merger_decomposition exts))) then
                              astep st (nth d (nth (domain_id exts loc) piece_ords []) [])
                            else (None, snd st)
                        end)
                     (seq 0 (length (nth d sizes [])))
                     (Some (repeat 0%Q (Z.to_nat (nth d mext 0%Z) + 1)), 0))
    else if fix_e then Some (nth d (nth 0 piece_ords []) [])
    else Some (repeat 0%Q (Z.to_nat (nth d mext 0%Z) + 1)) in
  match one 0, one 1, one 2 with
  | Some x, Some y, Some z => Some [x; y; z]
  | _, _, _ => None
  end.

(* _merge_cell_fields (_pvtk_readers.py :133-136) asserts that the cell fields of the pieces name exactly one cell type: a
   parallel structured file WITHOUT cell data cannot be read by the pinned code (finding F-C06d) *)
Definition pstructured_readable (repaired : bool) (n_cell_fields : nat) : bool := repaired || (0 <? n_cell_fields).

(* ---- the cell-type -> cell-index map of the structured readers ---------------------------------- *)
(* .vti/.vtr key the map by the mesh's own cell type; .vts keys it by the literal QUAD (_vts_reader.py :33-35).
   The lookup `index_map[cell_type] for cell_type in mesh.cell_types` (_xml_reader.py :87) succeeds iff the key is
   the mesh's cell type (finding F-C07a for 1-d and 3-d .vts files that carry cell data). *)
Definition reader_key_pinned (k : grid_kind) (dim : nat) : nat :=
  match k with Curvilinear => 9 | _ => cell_type_of k dim end.
Definition reader_key_fixed (k : grid_kind) (dim : nat) : nat := cell_type_of k dim.
Definition cell_data_readable (key : grid_kind -> nat -> nat) (k : grid_kind) (dim : nat) : bool :=
  key k dim =? cell_type_of k dim.

(* ---- from_meshio (meshio_utils.py :23-29) -------------------------------------------------------- *)
Section Meshio.
  Context {A : Type}.
  (* dict(pairs): a repeated key keeps its first position and takes the last value *)
  Fixpoint dict_set (k : nat) (v : A) (d : list (nat * A)) : list (nat * A) :=
    match d with
    | [] => [(k, v)]
    | (k', v') :: d' => if k' =? k then (k, v) :: d' else (k', v') :: dict_set k v d'
    end.
  Definition dict_of (pairs : list (nat * A)) : list (nat * A) :=
    fold_left (fun d kv => dict_set (fst kv) (snd kv) d) pairs [].
End Meshio.

Fixpoint dict_app {A : Type} (k : nat) (v : list A) (d : list (nat * list A)) : list (nat * list A) :=
  match d with
  | [] => [(k, v)]
  | (k', v') :: d' => if k' =? k then (k, v' ++ v) :: d' else (k', v') :: dict_app k v d'
  end.
(* blocks of equal type concatenated, in the order of the blocks *)
Definition group_blocks {A : Type} (pairs : list (nat * list A)) : list (nat * list A) :=
  fold_left (fun d kv => dict_app (fst kv) (snd kv) d) pairs [].

(* pinned: Mesh(points, ((type, block.data) for block in cells)) builds a dict (later block of a repeated type replaces
   the earlier one); MeshFields zips mesh.cell_types with the per-BLOCK data list, then checks the lengths.
   Result: per cell type (connectivity rows, data rows), or None for the ValueError of _make_cell_values *)
Definition from_meshio_pinned {V : Type} (blocks : list (nat * list (list nat))) (data : list (list V))
  : option (list (nat * (list (list nat) * list V))) :=
  let cells := dict_of blocks in
  let zipped := combine cells data in
  if forallb (fun cd => length (snd (fst cd)) =? length (snd cd)) zipped
  then Some (map (fun cd => (fst (fst cd), (snd (fst cd), snd cd))) zipped)
  else None.

(* repaired: blocks of one type are concatenated, and so are their data *)
Definition from_meshio_fixed {V : Type} (blocks : list (nat * list (list nat))) (data : list (list V))
  : option (list (nat * (list (list nat) * list V))) :=
  let cells := group_blocks blocks in
  let cd := group_blocks (combine (map fst blocks) data) in
  Some (map (fun c => (fst c, (snd c, match find (fun kv => fst kv =? fst c) cd with Some kv => snd kv | None => [] end))) cells).
