(* Model/Heap.v — a tiny store of arrays with aliasing, to express "operations never modify the arrays they are given".
   Variables hold locations; a program is a list of instructions.  `safe` is a static check (which variables may alias an
   input location?) whose soundness is proved in Proofs/HeapP.v; the write sites of the library are transcribed below as
   effect programs and checked by `vm_compute`.  (C19) *)
From Coq Require Import ZArith Arith Bool List.
Import ListNotations.

Definition store := list (list Z).              (* location = index *)
Definition var := nat.

Inductive instr :=
| ICopy (dst src : var)          (* dst := np.array(src) / make_array / fancy indexing / arithmetic result: a fresh array *)
| IAlias (dst src : var)         (* dst := src  (as_array on an array, plain assignment, a view) *)
| IWrite (v : var) (i : nat) (x : Z)     (* v[i] = x ; also stands for in-place sort / fill / *= on v *)
| IRead (v : var).               (* any read-only use *)

Definition env := list nat.                     (* variable -> location *)

Definition lookup (e : env) (v : var) : nat := nth v e 0.
Fixpoint set_var (e : env) (v : var) (l : nat) : env :=
  match v, e with
  | 0, [] => [l]
  | 0, _ :: r => l :: r
  | S v', [] => 0 :: set_var [] v' l
  | S v', x :: r => x :: set_var r v' l
  end.

Fixpoint write_at (l : list Z) (i : nat) (x : Z) : list Z :=
  match l, i with
  | [], _ => []
  | _ :: r, 0 => x :: r
  | y :: r, S i' => y :: write_at r i' x
  end.

Fixpoint update_loc (s : store) (loc : nat) (f : list Z -> list Z) : store :=
  match s, loc with
  | [], _ => []
  | a :: r, 0 => f a :: r
  | a :: r, S l' => a :: update_loc r l' f
  end.

Definition step (st : env * store) (i : instr) : env * store :=
  let (e, s) := st in
  match i with
  | ICopy dst src => (set_var e dst (length s), s ++ [nth (lookup e src) s []])
  | IAlias dst src => (set_var e dst (lookup e src), s)
  | IWrite v k x => (e, update_loc s (lookup e v) (fun a => write_at a k x))
  | IRead _ => (e, s)
  end.

Definition run (prog : list instr) (st : env * store) : env * store := fold_left step prog st.

(* static check: `fresh` = variables known to hold a location allocated by this program (never an input location) *)
Fixpoint safe_from (fresh : list var) (prog : list instr) : bool :=
  match prog with
  | [] => true
  | ICopy dst _ :: r => safe_from (dst :: fresh) r
  | IAlias dst src :: r =>
      if existsb (Nat.eqb src) fresh then safe_from (dst :: fresh) r
      else safe_from (filter (fun v => negb (v =? dst)) fresh) r
  | IWrite v _ _ :: r => existsb (Nat.eqb v) fresh && safe_from fresh r
  | IRead _ :: r => safe_from fresh r
  end.

Definition safe (prog : list instr) : bool := safe_from [] prog.

(* ---- the write sites of the library, transcribed ------------------------------------------------ *)
(* variable 0 (and 1) hold the arrays given by the caller *)

(* mesh/_mesh_equal.py:57-61  sorted_corners = make_array(corners); sorted_corners[i].sort() *)
Definition prog_sorted_corners : list instr := [ICopy 2 0; IWrite 2 0 0; IWrite 2 1 0].

(* mesh/_transformations.py (_merge): mapped_connectivity = make_array(connectivity); mapped_connectivity[i] = map[...] *)
Definition prog_merge_connectivity : list instr := [ICopy 2 0; IRead 1; IWrite 2 0 0].

(* _numpy_utils.py fuzzy_equal (after the repair): abs_diff, thresholds are results of arithmetic (fresh) *)
Definition prog_fuzzy_equal : list instr := [ICopy 2 0; ICopy 3 1; ICopy 4 2; IRead 3; ICopy 4 4; IRead 4].

(* _numpy_utils.py get_fuzzy_lex_sorting_index_map: idx_map = argsort(..) (fresh); sorted = input[idx_map] (fresh copy);
   idx_map[start:end] = ...; sorted[start:end] = ... *)
Definition prog_fuzzy_lex_sort : list instr := [ICopy 2 0; ICopy 3 0; IWrite 2 0 0; IWrite 3 0 0].

(* mesh/_mesh_fields.py _subtract: make_array(values, dtype=float) (copy); .fill(nan) *)
Definition prog_subtract_fill : list instr := [ICopy 2 0; IWrite 2 0 0].

(* mesh/_transformations.py extend_space_dimension_to: result = zeros(..) (fresh); result[:, :d] = values *)
Definition prog_extend : list instr := [ICopy 2 0; IRead 0; IWrite 2 0 0].

(* mesh/meshio_utils.py:61-76 _to_meshio_cell_type_and_ordering as found at the pinned commit:
   reordered = connectivity (ALIAS); reordered[i] = _reorder_quad_pixel(connectivity[i]) *)
Definition prog_to_meshio_pinned : list instr := [IAlias 2 0; ICopy 3 0; IWrite 2 0 7].
(* ... and repaired: reordered = make_array(connectivity) *)
Definition prog_to_meshio_fixed : list instr := [ICopy 2 0; ICopy 3 0; IWrite 2 0 7].
