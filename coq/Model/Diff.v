(* Model/Diff.v — difference data: TabularFields.diff_to / MeshFields.diff_to
   (tabular/_tabular_fields.py:47-77, mesh/_mesh_fields.py:96-98,190-233).
   `a.diff_to(b)` is `_subtract(b, a)`: reference minus source on matching entities, NaN (None) for one-sided fields. *)
From Coq Require Import QArith ZArith Arith Bool List.
From FC Require Import Model.Scalar Model.Compare.
Import ListNotations.
Local Open Scope nat_scope.

Definition column := (nat * list Q)%type.          (* field name id, values (one scalar per entity, flattened rows) *)

Definition as_field (c : column) : field := {| fname := fst c; fbase := fst c |}.

Fixpoint col_values (n : nat) (l : list column) : list Q :=
  match l with [] => [] | c :: r => if fst c =? n then snd c else col_values n r end.

Definition nrows (l : list column) (dflt : nat) : nat := match l with [] => dflt | c :: _ => length (snd c) end.

(* reference minus source on the common prefix, NaN beyond it up to n entries *)
Definition sub_padded (n : nat) (refv srcv : list Q) : list (option Q) :=
  map (fun p => Some (fst p - snd p)%Q) (combine refv srcv) ++ repeat None (n - min (length refv) (length srcv)).

(* tables: the diff lives on max(rows) rows *)
Definition diff_table (src_rows ref_rows : nat) (src ref : list column) : list (nat * list (option Q)) :=
  let n := max src_rows ref_rows in
  let q := find_matches (map as_field ref) (map as_field src) in     (* _subtract(other = reference, self = source) *)
  map (fun p => (fname (fst p), sub_padded n (col_values (fname (fst p)) ref) (col_values (fname (fst p)) src))) (matches q)
  ++ map (fun f => (fname f, repeat None n)) (orph_src q)            (* only in the reference *)
  ++ map (fun f => (fname f, repeat None n)) (orph_ref q).           (* only in the source *)

(* meshes: same mesh required (else the code raises: None); matched fields need equal shapes; one-sided fields keep their
   own length and are all-NaN *)
Definition same_length (a b : list Q) : bool := length a =? length b.

Definition diff_mesh (domains_equal : bool) (src ref : list column) : option (list (nat * list (option Q))) :=
  if negb domains_equal then None
  else
    let q := find_matches (map as_field ref) (map as_field src) in
    if forallb (fun p => same_length (col_values (fname (fst p)) ref) (col_values (fname (fst p)) src)) (matches q)
    then Some (
      map (fun p => (fname (fst p),
                     map (fun v => Some (fst v - snd v)%Q) (combine (col_values (fname (fst p)) ref) (col_values (fname (fst p)) src))))
          (matches q)
      ++ map (fun f => (fname f, map (fun _ => None) (col_values (fname f) ref))) (orph_src q)
      ++ map (fun f => (fname f, map (fun _ => None) (col_values (fname f) src))) (orph_ref q))
    else None.

(* ---- integer fields: the numeric type in which the difference is computed ------------------------------------------- *)
(* numpy subtracts two arrays of one integer type in that type: the result is the difference modulo 2^w (Model.Scalar.wrap).
   Pinned (finding F-C14a): the fields' own type.  Repaired (`_numpy_utils.subtract`): integers narrower than 64 bits and
   signed 64-bit integers are subtracted as int64, unsigned 64-bit integers as float64 (not modelled here). *)
Definition int_diff_pinned (w : Z) (sgn : bool) (refv srcv : Z) : Z := wrap w sgn (refv - srcv).
Definition int_diff_fixed (refv srcv : Z) : Z := wrap 64 true (refv - srcv).
Definition in_int_range (w : Z) (sgn : bool) (z : Z) : Prop :=
  if sgn then (- 2 ^ (w - 1) <= z < 2 ^ (w - 1))%Z else (0 <= z < 2 ^ w)%Z.
