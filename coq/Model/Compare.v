(* Model/Compare.v — name matching (fieldcompare/_matching.py:32-48) and FieldDataComparator.__call__
   (fieldcompare/_field_data_comparison.py:255-370), with the per-pair predicate outcome abstract.
   Field names are natural numbers (the harness numbers the distinct names); `fbase` is the name with
   the cell-type annotation " @ TYPE" removed, on which filters and predicate selection operate. *)
From Coq Require Import Arith Bool List.
Import ListNotations.

Record field := { fname : nat; fbase : nat }.

(* ---- find_matches: first match wins and is removed; order preserving -------------------- *)
Fixpoint take_first (n : nat) (l : list field) : option (field * list field) :=
  match l with
  | [] => None
  | t :: l' =>
      if fname t =? n then Some (t, l')
      else match take_first n l' with
           | Some (m, r) => Some (m, t :: r)
           | None => None
           end
  end.

Record matchres := { matches : list (field * field); orph_src : list field; orph_ref : list field }.

Fixpoint find_matches (src ref : list field) : matchres :=
  match src with
  | [] => {| matches := []; orph_src := []; orph_ref := ref |}
  | s :: src' =>
      match take_first (fname s) ref with
      | Some (t, ref') =>
          let r := find_matches src' ref' in
          {| matches := (s, t) :: matches r; orph_src := orph_src r; orph_ref := orph_ref r |}
      | None =>
          let r := find_matches src' ref in
          {| matches := matches r; orph_src := s :: orph_src r; orph_ref := orph_ref r |}
      end
  end.

(* ---- comparison ---------------------------------------------------------------------------- *)
Inductive outcome := OPass | OFail | ORaise.
Inductive fstatus := Passed | Failed | Error | MissingSource | MissingReference | Filtered.

Definition status_ok (s : fstatus) : bool :=          (* FieldComparisonStatus.__bool__ *)
  match s with Failed | Error => false | _ => true end.

Definition status_of (o : outcome) : fstatus :=
  match o with OPass => Passed | OFail => Failed | ORaise => Error end.

Record suite := { dom_ok : bool; entries : list (nat * fstatus); trace : list nat }.

Definition selected (incl excl : nat -> bool) (f : field) : bool := incl (fbase f) && negb (excl (fbase f)).

Definition compare (domain_ok : bool) (incl excl : nat -> bool) (out : nat -> outcome)
                   (src ref : list field) : suite :=
  if negb domain_ok then {| dom_ok := false; entries := []; trace := [] |}
  else
    let q := find_matches src ref in
    let sel := filter (fun p => selected incl excl (fst p)) (matches q) in
    let flt := filter (fun p => negb (selected incl excl (fst p))) (matches q) in
    let compared := map (fun p => (fname (fst p), status_of (out (fname (fst p))))) sel in
    {| dom_ok := true;
       entries := compared
                  ++ map (fun f => (fname f, MissingSource)) (orph_ref q)
                  ++ map (fun f => (fname f, MissingReference)) (orph_src q)
                  ++ map (fun p => (fname (fst p), Filtered)) flt;
       trace := map (fun p => fname (fst p)) sel |}.

(* FieldComparisonSuite.__bool__ *)
Definition suite_bool (s : suite) : bool :=
  dom_ok s && forallb (fun e => status_ok (snd e)) (entries s).
