(* Model/Compose.v — compositions of the reordering transformations (C08: "every composition of the public
   transformations").  One step is a point index map (sort_points, or any PermutedMesh point permutation), a family of
   per-block cell index maps (sort_cells), or strip_orphan_points; a step that the implementation cannot perform
   (a referenced point missing from the map, a cell map that is no permutation of its block) is None. *)
From Coq Require Import QArith Arith Bool List.
From FC Require Import Model.Scalar Model.Mesh.
Import ListNotations.
Local Open Scope nat_scope.

Inductive op :=
| OPoints (p : list nat)
| OCells (k : list (list nat))
| OStrip.

Fixpoint valid_cell_maps (bl : list (nat * list (list nat))) (k : list (list nat)) : bool :=
  match bl, k with
  | [], [] => true
  | b :: bl', kb :: k' => is_perm (length (snd b)) kb && valid_cell_maps bl' k'
  | _, _ => false
  end.

Definition step (M : mesh) (o : op) : option mesh :=
  match o with
  | OPoints p => permute_points M p
  | OCells k => if valid_cell_maps (cells M) k then Some (permute_cells M k) else None
  | OStrip => permute_points M (strip_map M)
  end.

Fixpoint run (M : mesh) (ops : list op) : option mesh :=
  match ops with
  | [] => Some M
  | o :: r => match step M o with Some M' => run M' r | None => None end
  end.

(* every corner index names a point *)
Definition wf_mesh (M : mesh) : Prop := forall i, referenced M i = true -> i < npoints M.
