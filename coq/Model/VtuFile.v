(* Model/VtuFile.v — a whole .vtu file as VTUWriter.write emits it and VTUReader reads it, composed from the
   array-level definitions of Model/Codec.v.  The XML text layer is not modelled (ElementTree / expat are oracles):
   a file is the record of its <DataArray> elements (type, NumberOfComponents, text).

   Mirrors (at the pinned commit + fixes):
     io/vtk/_vtu_writer.py:35-95    VTUWriter.write: PointData, CellData (per annotation-free name, per-type arrays
                                    concatenated in the mesh's order of cell types), Points (three coordinates),
                                    Cells/connectivity, offsets, types (Python ints -> Int64; UInt64 without cells)
     io/vtk/_vtu_reader.py:30-71    VTUReader: points, cells regrouped per type (np.unique), cell data split per type
   Values are integers; floats are carried as their bit patterns. *)
From Coq Require Import NArith ZArith List Bool.
From FC Require Import Model.Codec.
Import ListNotations.
Local Open Scope N_scope.

Notation rows := (list (list Z)).

(* a numeric array handed to the writer: type, number of components, one row per point / cell *)
Record narray := { a_type : vtype; a_nc : N; a_rows : rows }.
(* a <DataArray> element as the XML parser delivers it *)
Record darray := { da_type : vtype; da_nc : N; da_text : bytes }.

(* what the writer is handed *)
Record vdata := {
  v_points : narray;                                  (* one row of three coordinates per point (after _make_3d) *)
  v_groups : list (N * list (list N));                (* (vtk type id, corner lists) in the mesh's order of cell types *)
  v_itype : vtype;                                    (* integer type of the mesh's connectivity arrays: the corner indices
                                                         are written as numpy integers of that type *)
  v_pdata : list (bytes * narray);                    (* point fields by name *)
  v_cdata : list (bytes * (vtype * N * list rows))    (* cell fields by annotation-free name: the rows per cell type,
                                                         in the order of v_groups *)
}.

Record vfile := {
  f_points : darray; f_conn : darray; f_offs : darray; f_types : darray;
  f_pdata : list (bytes * darray); f_cdata : list (bytes * darray)
}.

(* what the reader hands out *)
Record vread := {
  r_points : narray;
  r_groups : list (N * list (list N));                (* per cell type, ascending type id *)
  r_pdata : list (bytes * narray);
  r_cdata : list (bytes * (vtype * N * list (N * rows)))   (* per name: (type id, rows of the cells of that type) *)
}.

Definition col (l : list N) : rows := map (fun i => [Z.of_N i]) l.
Definition uncol (r : rows) : list N := map (fun x => Z.to_N (hd 0%Z x)) r.

Definition mk (bo : border) (t : vtype) (nc : N) (rs : rows) : darray :=
  {| da_type := t; da_nc := nc; da_text := write_data_array bo t nc rs |}.
Definition mk_arr (bo : border) (a : narray) : darray := mk bo (a_type a) (a_nc a) (a_rows a).

(* offsets and types are built from Python ints (Int64); `make_array([], dtype=uint64)` when the mesh has no cells *)
Definition index_type (g : list (N * list (list N))) : vtype :=
  match writer_cells g with [] => VUInt 8 | _ => VInt 8 end.

Definition write_vtu (bo : border) (d : vdata) : vfile :=
  let g := v_groups d in
  {| f_points := mk_arr bo (v_points d);
     f_conn := mk bo (v_itype d) 1 (col (writer_connectivity g));
     f_offs := mk bo (index_type g) 1 (col (writer_offsets g));
     f_types := mk bo (index_type g) 1 (col (writer_types g));
     f_pdata := map (fun na => (fst na, mk_arr bo (snd na))) (v_pdata d);
     f_cdata := map (fun nc => (fst nc, mk bo (fst (fst (snd nc))) (snd (fst (snd nc))) (concat (snd (snd nc))))) (v_cdata d) |}.

Definition rd (bo : border) (a : darray) : option narray :=
  match read_written_array bo (da_type a) (da_nc a) (da_text a) with
  | Some rs => Some {| a_type := da_type a; a_nc := da_nc a; a_rows := rs |}
  | None => None
  end.

Fixpoint rd_all (bo : border) (l : list (bytes * darray)) : option (list (bytes * narray)) :=
  match l with
  | [] => Some []
  | (n, a) :: r =>
      match rd bo a, rd_all bo r with
      | Some x, Some xs => Some ((n, x) :: xs)
      | _, _ => None
      end
  end.

Definition read_vtu (bo : border) (f : vfile) : option vread :=
  match rd bo (f_points f), rd bo (f_conn f), rd bo (f_offs f), rd bo (f_types f), rd_all bo (f_pdata f), rd_all bo (f_cdata f) with
  | Some p, Some c, Some o, Some t, Some pd, Some cd =>
      let types := uncol (a_rows t) in
      Some {| r_points := p;
              r_groups := regroup_cells (uncol (a_rows c)) (uncol (a_rows o)) types;
              r_pdata := pd;
              r_cdata := map (fun na => (fst na, (a_type (snd na), a_nc (snd na),
                                                   regroup_cell_data (a_rows (snd na)) types []))) cd |}
  | _, _, _, _, _, _ => None
  end.

(* executable comparison used by the correspondence check: the file model of the data equals the given file, and
   reading the file succeeds *)
Definition vtype_eqb (a b : vtype) : bool :=
  match a, b with
  | VInt x, VInt y | VUInt x, VUInt y | VFloat x, VFloat y => Nat.eqb x y
  | _, _ => false
  end.
Definition darray_eqb (a b : darray) : bool :=
  vtype_eqb (da_type a) (da_type b) && (da_nc a =? da_nc b) && list_eqb (da_text a) (da_text b).
Fixpoint named_eqb (a b : list (bytes * darray)) : bool :=
  match a, b with
  | [], [] => true
  | (n, x) :: r, (m, y) :: s => list_eqb n m && darray_eqb x y && named_eqb r s
  | _, _ => false
  end.
Definition vfile_eqb (a b : vfile) : bool :=
  darray_eqb (f_points a) (f_points b) && darray_eqb (f_conn a) (f_conn b) && darray_eqb (f_offs a) (f_offs b) &&
  darray_eqb (f_types a) (f_types b) && named_eqb (f_pdata a) (f_pdata b) && named_eqb (f_cdata a) (f_cdata b).
