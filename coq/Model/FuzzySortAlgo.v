(* Model/FuzzySortAlgo.v — the block-refinement strategy of get_fuzzy_lex_sorting_index_map (_numpy_utils.py:125-140, after
   the repair of F-C02a), at the level of class vectors: sort by the first component; then, for every further component k,
   re-sort each maximal run of neighbours that agree on ALL previous components by component k.
   The component-wise sorter is abstract (np.argsort: any sorting permutation). *)
From Coq Require Import ZArith Arith Bool List.
From FC Require Import Model.SortSpec.
Import ListNotations.

Definition prefix_eqb (k : nat) (p q : zpoint) : bool := zpoint_eqb (firstn k p) (firstn k q).

(* maximal runs of adjacent elements with equal k-prefix (walk_adjacent_true_index_ranges on the cumulated equality flags) *)
Fixpoint runs (k : nat) (l : list zpoint) : list (list zpoint) :=
  match l with
  | [] => []
  | x :: r =>
      match runs k r with
      | (y :: g) :: gs => if prefix_eqb k x y then (x :: y :: g) :: gs else [x] :: (y :: g) :: gs
      | _ => [[x]]
      end
  end.

Section Algo.
  Variable sortby : nat -> list zpoint -> list zpoint.       (* argsort of one column, applied to a block *)

  Definition refine (k : nat) (l : list zpoint) : list zpoint := concat (map (sortby k) (runs k l)).

  Fixpoint refine_from (k n : nat) (l : list zpoint) : list zpoint :=
    match n with 0 => l | S n' => refine_from (S k) n' (refine k l) end.

  (* d = number of components *)
  Definition fuzzy_lex_sort (d : nat) (l : list zpoint) : list zpoint :=
    match d with 0 => l | S d' => refine_from 1 d' (sortby 0 l) end.
End Algo.

(* a concrete component-wise sorter (insertion sort), to run the model *)
Fixpoint insert_by (k : nat) (x : zpoint) (l : list zpoint) : list zpoint :=
  match l with
  | [] => [x]
  | y :: r => if (nth k x 0 <=? nth k y 0)%Z then x :: l else y :: insert_by k x r
  end.
Definition isort_by (k : nat) (l : list zpoint) : list zpoint := fold_right (insert_by k) [] l.
