(* Model/Cli.v — the decision algebra of the command-line interface:
   TestStatus / TestSuite (_cli/_test_suite.py), _parse_status and the translation of a comparison suite into a
   test suite (_cli/_file_comparison.py:192-311), tolerance maps (_cli/_common.py:36-80), the file-mode
   driver with its two exception layers (_file_comparison.py:66-83, _file_mode.py:43-77), sequence comparison
   (_file_comparison.py:143-184), the sequence cursor (_field_sequence.py:38-43, _pvd_reader.py),
   JUnit counting (_cli/_junit.py) and directory mode (_cli/_dir_mode.py:101-307).
   Executable definitions only. *)
From Coq Require Import Arith Bool List.
From FC Require Import Model.Compare.
Import ListNotations.

(* ---- TestStatus / TestSuite ---------------------------------------------------------------- *)
Inductive tstatus := TPassed | TFailed | TError | TSkipped.

Definition tstatus_ok (s : tstatus) : bool := match s with TFailed | TError => false | _ => true end.

Record tsuite := { ts_status : option tstatus; ts_tests : list (nat * tstatus) }.

Definition tests_ok (l : list (nat * tstatus)) : bool := forallb (fun t => tstatus_ok (snd t)) l.

Definition tsuite_bool (s : tsuite) : bool :=
  match ts_status s with Some st => tstatus_ok st | None => tests_ok (ts_tests s) end.

Definition tsuite_status (s : tsuite) : tstatus :=
  match ts_status s with Some st => st | None => if tsuite_bool s then TPassed else TFailed end.

Definition exit_code (passed : bool) : nat := if passed then 0 else 1.     (* _bool_to_exit_code *)

(* ---- FieldComparisonStatus -> TestStatus ----------------------------------------------------- *)
Definition parse_status (ign_src ign_ref : bool) (s : fstatus) : tstatus :=
  match s with
  | Passed => TPassed
  | Failed => TFailed
  | Error => TError
  | MissingReference => if ign_ref then TSkipped else TFailed
  | MissingSource => if ign_src then TSkipped else TFailed
  | Filtered => TSkipped
  end.

(* _compare_field_data: a suite whose domain check failed becomes an empty suite with explicit status failed *)
Definition to_tsuite (ign_src ign_ref : bool) (S : suite) : tsuite :=
  if dom_ok S
  then {| ts_status := None; ts_tests := map (fun e => (fst e, parse_status ign_src ign_ref (snd e))) (entries S) |}
  else {| ts_status := Some TFailed; ts_tests := [] |}.

(* the comparison of two field-data objects as used by the CLI: comparator, then translation *)
Definition cmp_fd (D : Type) (dom : D -> D -> bool) (flds : D -> list field) (out : D -> D -> nat -> outcome)
                  (incl excl : nat -> bool) (is ir : bool) (a b : D) : tsuite :=
  to_tsuite is ir (compare (dom a b) incl excl (out a b) (flds a) (flds b)).

(* ---- tolerance arguments ------------------------------------------------------------------------ *)
(* one -rtol/-atol argument after tokenisation: a value, optionally bound to a field name *)
Section Tol.
  Variable V : Type.
  Fixpoint last_field (args : list (option nat * V)) (n : nat) (acc : option V) : option V :=
    match args with
    | [] => acc
    | (Some m, v) :: r => last_field r n (if m =? n then Some v else acc)
    | (None, _) :: r => last_field r n acc
    end.
  Fixpoint last_global (args : list (option nat * V)) (acc : option V) : option V :=
    match args with
    | [] => acc
    | (None, v) :: r => last_global r (Some v)
    | (Some _, _) :: r => last_global r acc
    end.
  (* FieldToleranceMap.__call__ : per-field value if given, else the (last) global value, else None *)
  Definition tol_lookup (args : list (option nat * V)) (n : nat) : option V :=
    match last_field args n None with Some v => Some v | None => last_global args None end.
End Tol.
Arguments last_field {V}. Arguments last_global {V}. Arguments tol_lookup {V}.

(* ---- file mode ------------------------------------------------------------------------------------ *)
(* what reading a file yields *)
Inductive readres (D : Type) := RIOErr | ROther | RData (d : D) | RSeq (l : list D).
Arguments RIOErr {D}. Arguments ROther {D}. Arguments RData {D}. Arguments RSeq {D}.

(* result of FileComparison.__call__ : a test suite, or an exception escaping to _run *)
Inductive fcres := FSuite (s : tsuite) | FRaise.

Definition merged_result (r1 r2 : tstatus) : option tstatus :=
  match r1, r2 with
  | TFailed, _ | _, TFailed => Some TFailed
  | TError, _ | _, TError => Some TError
  | TSkipped, _ | _, TSkipped => Some TSkipped
  | _, _ => None
  end.

Definition merge_suites (s1 s2 : tsuite) : tsuite :=
  {| ts_status := merged_result (tsuite_status s1) (tsuite_status s2); ts_tests := ts_tests s1 ++ ts_tests s2 |}.

Section FileMode.
  Variable D : Type.
  Variable cmp : D -> D -> tsuite.           (* _compare_field_data on two field-data objects *)

  (* zip of the two step lists, each pair compared once, in order; returns the merged suite and the indices compared *)
  Fixpoint seq_loop (i : nat) (acc : tsuite) (res ref : list D) : tsuite * list nat :=
    match res, ref with
    | a :: res', b :: ref' =>
        let (s, idx) := seq_loop (S i) (merge_suites acc (cmp a b)) res' ref' in (s, i :: idx)
    | _, _ => (acc, [])
    end.

  Definition compare_seq (ign_steps force : bool) (res ref : list D) : tsuite * list nat :=
    let differ := negb (length res =? length ref) in
    if differ && negb ign_steps && negb force then ({| ts_status := Some TFailed; ts_tests := [] |}, [])
    else
      let check := if differ && negb ign_steps then Some TFailed else None in
      seq_loop 0 {| ts_status := check; ts_tests := [] |} res ref.

  Definition file_compare (ign_steps force : bool) (r s : readres D) : fcres :=
    match r with
    | RIOErr => FSuite {| ts_status := Some TError; ts_tests := [] |}
    | ROther => FRaise                                   (* propagates before the reference is read *)
    | _ =>
        match s with
        | RIOErr => FSuite {| ts_status := Some TError; ts_tests := [] |}
        | ROther => FRaise
        | _ =>
            match r, s with
            | RData a, RData b => FSuite (cmp a b)
            | RSeq la, RSeq lb => FSuite (fst (compare_seq ign_steps force la lb))
            | _, _ => FRaise                             (* "Cannot compare sequences against field data" *)
            end
        end
    end.

  (* _run: catch-all, exit code *)
  Definition cli_file (ign_steps force : bool) (r s : readres D) : nat :=
    match file_compare ign_steps force r s with
    | FSuite t => exit_code (tsuite_bool t)
    | FRaise => 1
    end.
End FileMode.
Arguments seq_loop {D}. Arguments compare_seq {D}. Arguments file_compare {D}. Arguments cli_file {D}.

(* ---- sequence cursor (FieldDataSequence.__iter__ over a PVD/XDMF source) ------------------------- *)
Record source (A : Type) := { pieces : list A; cursor : nat }.
Arguments pieces {A}. Arguments cursor {A}.

Definition src_reset {A} (s : source A) : source A := {| pieces := pieces s; cursor := 0 |}.
Definition src_step {A} (s : source A) : source A * bool :=
  ({| pieces := pieces s; cursor := S (cursor s) |}, S (cursor s) <? length (pieces s)).
Definition src_get {A} (s : source A) : option A := nth_error (pieces s) (cursor s).

(* generator unfolded with fuel: reset; yield get; while step(): yield get *)
Fixpoint iter_loop {A} (fuel : nat) (s : source A) : list (option A) * source A :=
  match fuel with
  | 0 => ([], s)
  | S f =>
      let (s', more) := src_step s in
      if more then let (l, s'') := iter_loop f s' in (src_get s' :: l, s'') else ([], s')
  end.

Definition iterate {A} (s : source A) : list (option A) * source A :=
  let s0 := src_reset s in
  let (l, s') := iter_loop (length (pieces s)) s0 in (src_get s0 :: l, s').

(* ---- JUnit report --------------------------------------------------------------------------------- *)
Record junit := { j_tests : nat; j_failures : nat; j_errors : nat; j_skipped : nat;
                  j_cases : list (nat * list nat) }.   (* case name, child tags: 0 failure, 1 error, 2 skipped *)

Definition count_status (st : tstatus) (l : list (nat * tstatus)) : nat :=
  length (filter (fun t => match snd t, st with
                           | TPassed, TPassed | TFailed, TFailed | TError, TError | TSkipped, TSkipped => true
                           | _, _ => false end) l).

Definition case_children (st : tstatus) : list nat :=
  match st with TPassed => [] | TFailed => [0] | TSkipped => [2] | TError => [0; 1] end.

(* as_junit_xml_element: a suite that failed as a whole without a failing test case gets one test case
   ("file comparison", numbered `syn`) carrying the suite's status *)
Definition junit_tests (syn : nat) (s : tsuite) : list (nat * tstatus) :=
  if negb (tsuite_bool s) && tests_ok (ts_tests s) then ts_tests s ++ [(syn, tsuite_status s)] else ts_tests s.

Definition junit_of (syn : nat) (s : tsuite) : junit :=
  let t := junit_tests syn s in
  {| j_tests := length t;
     j_failures := count_status TFailed t;
     j_errors := count_status TError t;
     j_skipped := count_status TSkipped t;
     j_cases := map (fun t => (fst t, case_children (snd t))) t |}.

Definition junit_has_failure (j : junit) : bool :=
  existsb (fun c => existsb (fun tag => (tag =? 0) || (tag =? 1)) (snd c)) (j_cases j).

(* ---- directory mode --------------------------------------------------------------------------------- *)
Record categories := { to_compare : list nat; missing_src : list nat; missing_ref : list nat;
                       discarded : list nat; unsupported : list nat; discarded_orphans : list nat }.

Definition memb (n : nat) (l : list nat) : bool := existsb (Nat.eqb n) l.

(* paths are numbered; `consider` = include && not exclude; `supported`/`mapped` as in io.is_supported / --read-as *)
Definition categorize (consider supported mapped : nat -> bool) (src ref : list nat) : categories :=
  let matches := filter (fun p => memb p ref) src in
  let orph_src := filter (fun p => negb (memb p ref)) src in
  let orph_ref := filter (fun p => negb (memb p src)) ref in
  let fm := filter consider matches in
  let sup := filter supported fm in
  let unsup := filter (fun p => negb (supported p)) fm in
  {| to_compare := sup ++ filter mapped unsup;
     missing_src := filter consider orph_ref;
     missing_ref := filter consider orph_src;
     discarded := filter (fun p => negb (consider p)) matches;
     unsupported := filter (fun p => negb (mapped p)) unsup;
     discarded_orphans := filter (fun p => negb (consider p)) orph_ref ++ filter (fun p => negb (consider p)) orph_src |}.

Definition dummy_suite (p : nat) (failure : bool) : nat * tsuite :=
  let st := if failure then TFailed else TSkipped in (p, {| ts_status := Some st; ts_tests := [(0, st)] |}).

(* file comparison per path: a suite or an exception (-> error suite) *)
Definition dir_suites (ign_src_files ign_ref_files : bool) (c : categories) (fc : nat -> fcres) : list (nat * tsuite) :=
  map (fun p => (p, match fc p with FSuite t => t | FRaise => {| ts_status := Some TError; ts_tests := [] |} end)) (to_compare c)
  ++ map (fun p => dummy_suite p (negb ign_src_files)) (missing_src c)
  ++ map (fun p => dummy_suite p (negb ign_ref_files)) (missing_ref c)
  ++ map (fun p => dummy_suite p false) (unsupported c)
  ++ map (fun p => dummy_suite p false) (discarded c).

Definition cli_dir (ign_src_files ign_ref_files : bool) (c : categories) (fc : nat -> fcres) : nat :=
  exit_code (forallb (fun s => tsuite_bool (snd s)) (dir_suites ign_src_files ign_ref_files c fc)).
