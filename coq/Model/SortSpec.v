(* Model/SortSpec.v — the specification that sort_points / sort_cells have to meet for the sorted representation to
   be canonical (C02), with executable checkers that are run on the index maps the implementation actually produces.
   Exact coordinates: integers (the harness scales dyadic coordinates by a common power of two). *)
From Coq Require Import ZArith Arith Bool List.
Import ListNotations.

Definition zpoint := list Z.

(* strict lexicographic order (a proper prefix is smaller) *)
Fixpoint lex_ltb (p q : zpoint) : bool :=
  match p, q with
  | [], [] => false
  | [], _ :: _ => true
  | _ :: _, [] => false
  | a :: p', b :: q' => if (a <? b)%Z then true else if (a =? b)%Z then lex_ltb p' q' else false
  end.

Fixpoint sorted_strict (l : list zpoint) : bool :=
  match l with
  | [] => true
  | p :: r => match r with [] => true | q :: _ => lex_ltb p q && sorted_strict r end
  end.

Fixpoint zpoint_eqb (p q : zpoint) : bool :=
  match p, q with
  | [], [] => true
  | a :: p', b :: q' => (a =? b)%Z && zpoint_eqb p' q'
  | _, _ => false
  end.

(* position of a point in a list of points *)
Fixpoint pos_of (S : list zpoint) (p : zpoint) : option nat :=
  match S with
  | [] => None
  | q :: r => if zpoint_eqb q p then Some 0 else match pos_of r p with Some k => Some (Datatypes.S k) | None => None end
  end.

(* T3 checker for sort_points on noise-free data: the index map p arranges the points in strictly increasing
   lexicographic order *)
Definition check_point_sort (P : list zpoint) (p : list nat) : bool :=
  sorted_strict (map (fun i => nth i P []) p).

(* T3 checker for sort_cells: keys (one per cell, in view order) strictly increasing *)
Fixpoint increasing (l : list Z) : bool :=
  match l with
  | [] => true
  | a :: r => match r with [] => true | b :: _ => (a <? b)%Z && increasing r end
  end.
