(* Model/CliFile.v — concrete instance of the file-mode model for data sets that are a domain plus named
   value arrays (tables; mesh data after the relabeling known to the harness): the per-field outcome is
   DefaultEquality with the tolerances that apply to the field (_select_predicate, _file_comparison.py:264-270). *)
From Coq Require Import String.
From Coq Require Import QArith Arith Bool List.
From FC Require Import Model.Scalar Model.Predicates Model.Compare Model.Cli.
Import ListNotations.
Local Open Scope nat_scope.

Record dataset := { dom_id : nat;                       (* tables: number of rows; meshes: class of the mesh *)
                    cols : list (nat * nat * arr) }.    (* field name id, annotation-free base name id, values *)

Fixpoint col_of (n : nat) (l : list (nat * nat * arr)) : option arr :=
  match l with
  | [] => None
  | (m, _, a) :: r => if m =? n then Some a else col_of n r
  end.
Fixpoint base_of (n : nat) (l : list (nat * nat * arr)) : nat :=
  match l with
  | [] => n
  | (m, b, _) :: r => if m =? n then b else base_of n r
  end.

Definition ds_fields (d : dataset) : list field := map (fun c => {| fname := fst (fst c); fbase := snd (fst c) |}) (cols d).

(* tolerance arguments after tokenisation: optional base-name id, value (a number or value*max) *)
Definition tolargs := list (option nat * tolspec).

Definition rel_for (rargs : tolargs) (b : nat) : tolspec :=
  match tol_lookup rargs b with Some t => t | None => TDefault end.
Definition abs_for (aargs : tolargs) (b : nat) : tolspec :=
  match tol_lookup aargs b with Some t => t | None => TNum 0 end.

Definition field_outcome (rargs aargs : tolargs) (a b : dataset) (n : nat) : outcome :=
  match col_of n (cols a), col_of n (cols b) with
  | Some x, Some y =>
      let bn := base_of n (cols a) in
      match default_eq (rel_for rargs bn) (abs_for aargs bn) x y with
      | Ok true => OPass | Ok false => OFail | Err => ORaise
      end
  | _, _ => ORaise
  end.

Definition cmp_datasets (rargs aargs : tolargs) (incl excl : nat -> bool) (is ir : bool) : dataset -> dataset -> tsuite :=
  cmp_fd dataset (fun a b => dom_id a =? dom_id b) ds_fields (field_outcome rargs aargs) incl excl is ir.

Definition cli_file_datasets (rargs aargs : tolargs) (incl excl : nat -> bool) (is ir ign_steps force : bool)
                             (r s : readres dataset) : nat :=
  cli_file (cmp_datasets rargs aargs incl excl is ir) ign_steps force r s.
