(* Model/FuzzySort.v — specification of fuzzy-lexicographic point sorting for coordinates with noise far below the
   tolerance (C02).  Each coordinate column comes with cluster boundaries `bs` (values strictly between the clusters of
   nearly-equal coordinates); `kappa bs u` is the cluster index of u (a monotone step function), `cls` the class vector of
   a point.  The specification the sorting has to meet: class vectors in strictly increasing lexicographic order.
   The checkers below are run on the views the implementation produces. *)
From Coq Require Import QArith ZArith Arith Bool List.
From FC Require Import Model.Scalar Model.Mesh Model.SortSpec.
Import ListNotations.

Definition kappa (bs : list Q) (u : Q) : Z := Z.of_nat (length (filter (fun b => Qle_bool b u) bs)).

Fixpoint cls (bss : list (list Q)) (p : point) : zpoint :=
  match bss, p with
  | bs :: bss', u :: p' => kappa bs u :: cls bss' p'
  | _, _ => []
  end.

(* insertion sort of class vectors, to decide equality of multisets *)
Fixpoint insert_z (x : zpoint) (l : list zpoint) : list zpoint :=
  match l with [] => [x] | y :: r => if lex_ltb y x then y :: insert_z x r else x :: l end.
Definition sort_z (l : list zpoint) : list zpoint := fold_right insert_z [] l.

Fixpoint zlist_eqb (a b : list zpoint) : bool :=
  match a, b with
  | [], [] => true
  | x :: a', y :: b' => zpoint_eqb x y && zlist_eqb a' b'
  | _, _ => false
  end.

Definition same_multiset (a b : list zpoint) : bool := zlist_eqb (sort_z a) (sort_z b).

(* points of the same class must be within tolerance of each other (noise far below the tolerance) *)
Definition sep_points_ok (bss : list (list Q)) (rel abs : Q) (l1 l2 : list point) : bool :=
  forallb (fun p => forallb (fun q => implb (zpoint_eqb (cls bss p) (cls bss q)) (point_close rel abs p q)) l2) l1.

(* the complete run-time check for a pair of sorted views *)
Definition check_noisy_sorted (bss : list (list Q)) (rel abs : Q) (v1 v2 : list point) : bool :=
  sorted_strict (map (cls bss) v1) && sorted_strict (map (cls bss) v2)
  && same_multiset (map (cls bss) v1) (map (cls bss) v2) && sep_points_ok bss rel abs v1 v2.
