(* Model/Scalar.v — the scalar tolerance kernel of fieldcompare._numpy_utils.fuzzy_equal
   (lines 239-257 of /repo/fieldcompare/_numpy_utils.py):

       abs_diff   = np.abs(second - first)
       thresholds = np.maximum(np.abs(first), np.abs(second))
       thresholds *= rel_tol
       thresholds = np.maximum(thresholds, abs_tol)
       return np.less_equal(abs_diff, thresholds)

   Two instances: exact rationals (Q) — used on the domain where every floating-point
   operation above is exact — and binary64 PrimFloat with the same operation order.
   Executable definitions only; proofs live in Proofs/. *)
From Coq Require Import QArith Qabs ZArith Bool List.
From Coq Require Import PrimFloat.
Import ListNotations.

(* dyadic rational  m * 2^e ; the harness writes every number in this form *)
Definition dy (m e : Z) : Q :=
  if (0 <=? e)%Z then inject_Z (m * 2 ^ e) else Qmake m (Z.to_pos (2 ^ (- e))).

Definition qmax (a b : Q) : Q := if Qle_bool a b then b else a.

Definition thr_q (a b rel abs : Q) : Q := qmax (qmax (Qabs a) (Qabs b) * rel) abs.

Definition fuzzy_q (a b rel abs : Q) : bool := Qle_bool (Qabs (b - a)) (thr_q a b rel abs).

(* binary64 kernel, same operation order.  np.maximum on finite values. *)
Definition fmax (a b : float) : float := if PrimFloat.ltb a b then b else a.

Definition thr_f (a b rel abs : float) : float :=
  fmax (PrimFloat.mul (fmax (PrimFloat.abs a) (PrimFloat.abs b)) rel) abs.

(* as found at the pinned commit: an infinite operand makes the threshold infinite, and inf <= inf holds (F-C03b) *)
Definition fuzzy_f_pinned (a b rel abs : float) : bool :=
  PrimFloat.leb (PrimFloat.abs (PrimFloat.sub b a)) (thr_f a b rel abs).

(* repaired (2461513): the deviation itself has to be finite *)
Definition fuzzy_f (a b rel abs : float) : bool :=
  PrimFloat.leb (PrimFloat.abs (PrimFloat.sub b a)) (thr_f a b rel abs) &&
  PrimFloat.ltb (PrimFloat.abs (PrimFloat.sub b a)) PrimFloat.infinity.

(* constants for statements in files that do not import PrimFloat *)
Definition f_zero : float := 0%float.        Definition f_one : float := 1%float.
Definition f_three_halves : float := 1.5%float.   Definition f_half : float := 0.5%float.
Definition f_eps : float := 0x1p-52%float.   Definition f_million : float := 1e6%float.
Definition f_inf : float := PrimFloat.infinity.   Definition f_ninf : float := PrimFloat.neg_infinity.

(* integer kernel with fixed-width wrap-around: what numpy computes when FuzzyEquality is applied
   directly to two integer arrays of the same dtype (second - first, abs and maximum in that dtype;
   thresholds *= rel_tol with an integer rel_tol). *)
Definition wrap (w : Z) (sgn : bool) (z : Z) : Z :=
  let m := (2 ^ w)%Z in
  let r := (z mod m)%Z in
  if sgn then (if (r <? 2 ^ (w - 1))%Z then r else r - m)%Z else r.

(* array lifting of the binary64 kernel (scalar tolerances), used by the bit-exact float stream *)
Fixpoint fuzzy_all_f (rel abs : float) (d1 d2 : list float) : bool :=
  match d1, d2 with
  | a :: d1', b :: d2' => fuzzy_f a b rel abs && fuzzy_all_f rel abs d1' d2'
  | _, _ => true
  end.
