(* Model/Paths.v — where the piece / step files named in an index file (.pvtu, .pvtp, .pvts, .pvtr, .pvti, .pvd) are looked up
   (io/vtk/_pvtk_readers.py:_make_piece_reader, io/vtk/_pvd_reader.py:get).  Finding F-C06g. *)
From Coq Require Import Bool.

Inductive lookup := AsGiven        (* the name as written in the index file: relative names resolve against the working directory *)
                  | NextToIndex.   (* the name joined with the directory of the index file *)

(* pinned: only if nothing of that name exists in the working directory *)
Definition resolve_pinned (is_abs in_cwd next_to_index : bool) : lookup :=
  if negb in_cwd && negb is_abs && next_to_index then NextToIndex else AsGiven.
(* repaired: a relative name that exists next to the index file is that file *)
Definition resolve_fixed (is_abs in_cwd next_to_index : bool) : lookup :=
  if negb is_abs && next_to_index then NextToIndex else AsGiven.
