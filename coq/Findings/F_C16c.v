(* Findings/F_C16c.v — witness of the OPEN finding F-C16c (property C16).
   Full statement that is refuted for the faithful model of ImageMesh.equals:
     forall rel abs A B, image_equals rel abs A B = true -> points_close rel abs (points A) (points B) = true
   ("image meshes never answer 'equal' where the explicit representation of the same grids answers 'unequal'"). *)
From Coq Require Import QArith Arith Bool List.
From FC Require Import Model.Scalar Model.Mesh Model.Structured Model.ImageEq.
Import ListNotations.

Definition C16_image_sound_statement : Prop :=
  forall rel abs A B, image_equals rel abs A B = true ->
                      points_close rel abs (image_mesh_points A) (image_mesh_points B) = true.

(* a line of 100 cells; absolute tolerance 1/100; spacing differs by 1/200 (below the tolerance): parameter-wise equal,
   but the far end of the grid is displaced by 100 * 1/200 = 1/2 = 50 tolerances *)
Definition witnessA : image := {| im_extents := [100; 0; 0]%nat; im_origin := [0; 0; 0]%Q; im_spacing := [1; 1; 1]%Q; im_basis := identity3 |}.
Definition witnessB : image := {| im_extents := [100; 0; 0]%nat; im_origin := [0; 0; 0]%Q; im_spacing := [1 + (1#200); 1; 1]%Q; im_basis := identity3 |}.

Theorem F_C16c_refuted : ~ C16_image_sound_statement.
Proof.
  intro H. specialize (H 0%Q (1#100)%Q witnessA witnessB).
  assert (E : image_equals 0 (1#100) witnessA witnessB = true) by (vm_compute; reflexivity).
  specialize (H E).
  assert (X : points_close 0 (1#100) (image_mesh_points witnessA) (image_mesh_points witnessB) = false) by (vm_compute; reflexivity).
  congruence.
Qed.
Print Assumptions F_C16c_refuted.
