(* Property C07 — the same grid reads equal from every supported container format. *)
From Coq Require Import QArith ZArith Bool Arith List.
From FC Require Import Model.Scalar Model.Mesh Model.Structured Proofs.StructuredP Proofs.StructuredMeshP Proofs.BridgeP.
Import ListNotations.
Local Open Scope nat_scope.

(* the k-th lattice location is the one with mixed-radix number k, first direction fastest *)
Theorem C07_locations_x_fastest : forall shape,
  map (flat_index shape) (locations_in shape) = seq 0 (nprod shape).
Proof. exact locations_x_fastest. Qed.
Print Assumptions C07_locations_x_fastest.

Theorem C07_location_of_index : forall shape loc, Forall2 (fun i m => i < m) loc shape ->
  flat_index shape loc < nprod shape /\ nth (flat_index shape loc) (locations_in shape) [] = loc.
Proof. exact location_of_index. Qed.
Print Assumptions C07_location_of_index.

(* cells: 1, 2 or 3 meshed directions (zero extents in the others); the c-th cell sits at the c-th location and its corners are
   the points at location + {0,1}^d — pixel/voxel order, VTK quad/hexahedron order for structured grids *)
Theorem C07_connectivity_correct : forall k extents,
  let ne := nonzero_extents extents in
  1 <= length ne <= 3 ->
  connectivity k (cell_type_of k (length ne)) extents
  = map (fun loc => order_of k (length ne) (corners_spec ne loc)) (locations_in ne)
  /\ length (connectivity k (cell_type_of k (length ne)) extents) = num_cells extents
  /\ (forall ct, ct <> cell_type_of k (length ne) -> connectivity k ct extents = []).
Proof. exact connectivity_correct. Qed.
Print Assumptions C07_connectivity_correct.

Theorem C07_quad_hex_order : forall a b c i j k,
  order_of Curvilinear 2 (corners_spec [a; b] [i; j])
  = [corner [a; b] [i; j] [0; 0]; corner [a; b] [i; j] [1; 0]; corner [a; b] [i; j] [1; 1]; corner [a; b] [i; j] [0; 1]]
  /\ order_of Curvilinear 3 (corners_spec [a; b; c] [i; j; k])
  = map (corner [a; b; c] [i; j; k]) [[0;0;0]; [1;0;0]; [1;1;0]; [0;1;0]; [0;0;1]; [1;0;1]; [1;1;1]; [0;1;1]].
Proof. intros. split; reflexivity. Qed.
Print Assumptions C07_quad_hex_order.

(* the point numbering of the meshed sub-lattice is the 3-d numbering restricted to index 0 in the flat directions *)
Theorem C07_embed_index : forall extents loc,
  flat_index (map S extents) (embed extents loc) = flat_index (map S (nonzero_extents extents)) loc.
Proof. exact embed_index. Qed.
Print Assumptions C07_embed_index.

Theorem C07_image_points_spec : forall o s B extents loc,
  Forall2 (fun i e => i <= e) loc extents ->
  nth (flat_index (map S extents) loc) (image_points o s B extents) [] = image_point o s B loc
  /\ length (image_points o s B extents) = num_points extents.
Proof. exact image_points_spec. Qed.
Print Assumptions C07_image_points_spec.

Theorem C07_rect_points_spec : forall ordinates,
  let ords := map fix_ordinates ordinates in
  rect_points ordinates = map (pick 0%Q ords) (locations_in (map (@length Q) ords))
  /\ forall loc, Forall2 (fun i o => i < length o) loc ords ->
       nth (flat_index (map (@length Q) ords) loc) (rect_points ordinates) [] = pick 0%Q ords loc.
Proof. exact rect_points_spec. Qed.
Print Assumptions C07_rect_points_spec.

(* an image grid with the standard basis = the rectilinear grid of its generated ordinates, exactly *)
Theorem C07_image_rect_agree : forall ox oy oz sx sy sz ex ey ez,
  Forall2 (Forall2 Qeq)
    (image_points [ox; oy; oz] [sx; sy; sz] identity3 [ex; ey; ez])
    (rect_points (ordinates_of [ox; oy; oz] [sx; sy; sz] [ex; ey; ez])).
Proof. exact image_rect_agree. Qed.
Print Assumptions C07_image_rect_agree.

(* the cell-index map of the structured readers, keyed by the mesh's own cell type, serves every structured file *)
Theorem C07_reader_cell_index_map : forall k dim, cell_data_readable reader_key_fixed k dim = true.
Proof. exact reader_key_fixed_ok. Qed.
Print Assumptions C07_reader_cell_index_map.

(* finding F-C07a: keyed by QUAD (pinned .vts reader) it fails for 1 and 3 meshed directions *)
Theorem C07_reader_key_pinned_refuted :
  cell_data_readable reader_key_pinned Curvilinear 1 = false /\
  cell_data_readable reader_key_pinned Curvilinear 3 = false /\
  cell_data_readable reader_key_pinned Curvilinear 2 = true /\
  (forall dim, cell_data_readable reader_key_pinned Image dim = true) /\
  (forall dim, cell_data_readable reader_key_pinned Rectilinear dim = true).
Proof. exact reader_key_pinned_refuted. Qed.
Print Assumptions C07_reader_key_pinned_refuted.

(* meshio bridge (repaired): cells and cell data of every block appear in the result *)
Theorem C07_from_meshio_blocks : forall (V : Type) (blocks : list (nat * list (list nat))) (data : list (list V)),
  length data = length blocks ->
  exists res, from_meshio_fixed blocks data = Some res /\
    forall t, In t (map fst blocks) ->
      In (t, (rows_of t blocks, rows_of t (combine (map fst blocks) data))) res.
Proof. exact from_meshio_fixed_blocks. Qed.
Print Assumptions C07_from_meshio_blocks.

(* finding F-C07b: the pinned bridge keeps only the last block of a repeated type and misattaches the data *)
Theorem C07_from_meshio_pinned_refuted :
  let blocks := [(5, [[0; 1; 2]]); (9, [[0; 1; 2; 3]]); (5, [[1; 2; 3]])] in
  let data := [[10]; [20]; [30]] in
  from_meshio_pinned blocks data = Some [(5, ([[1; 2; 3]], [10])); (9, ([[0; 1; 2; 3]], [20]))] /\
  from_meshio_fixed blocks data = Some [(5, ([[0; 1; 2]; [1; 2; 3]], [10; 30])); (9, ([[0; 1; 2; 3]], [20]))].
Proof. exact from_meshio_pinned_refuted. Qed.
Print Assumptions C07_from_meshio_pinned_refuted.

(* the same lattice as image / rectilinear grid (pixels, voxels: x-fastest corner order) and as structured grid or explicit
   unstructured grid (quads, hexahedra: VTK corner order) passes the mesh comparison of C16's model (points, pairing of
   compatible cell types, row-by-row comparison of sorted corner lists) for any two kinds, every extent vector with one to
   three meshed directions, every point list and all tolerances; the row-by-row pairing is also what lines up cell data *)
Theorem C07_structured_as_explicit : forall k1 k2 P extents rel abs,
  (0 <= abs)%Q -> 1 <= length (nonzero_extents extents) <= 3 ->
  mesh_equal rel abs (grid_mesh k1 P extents) (grid_mesh k2 P extents) = true.
Proof. exact structured_as_explicit. Qed.
Print Assumptions C07_structured_as_explicit.

(* the bridge in the other direction (to_meshio, repaired: finding F-C07c) and the round trip through it: every cell of every
   block of the mesh — whatever the mix of cell types, quads next to pixels and hexahedra next to voxels included — is among
   the cells handed out after to_meshio followed by from_meshio, under the meshio type of its block *)
Theorem C07_bridge_round_trip_keeps_cells : forall (V : Type) blocks (data : list (list V)) t rows r,
  length data = length blocks -> In (t, rows) blocks -> In r rows ->
  exists res cells dat, from_meshio_fixed (to_meshio_fixed blocks) data = Some res /\
    In (meshio_type t, (cells, dat)) res /\ In (meshio_row t r) cells.
Proof. exact bridge_round_trip_keeps_cells. Qed.
Print Assumptions C07_bridge_round_trip_keeps_cells.

(* finding F-C07c: the pinned to_meshio (blocks in a dict keyed by the meshio type) keeps only the pixel cells of a mesh that
   has a quad block and a pixel block *)
Theorem C07_to_meshio_pinned_refuted :
  let blocks := [(9, [[0; 1; 2; 3]]); (8, [[1; 4; 2; 5]])] in
  to_meshio_pinned blocks = [(9, [[1; 4; 5; 2]])] /\
  to_meshio_fixed blocks = [(9, [[0; 1; 2; 3]]); (9, [[1; 4; 5; 2]])].
Proof. exact to_meshio_pinned_refuted. Qed.
Print Assumptions C07_to_meshio_pinned_refuted.

Example C07_nonvacuous :
  connectivity Image 8 [2; 0; 1] = [[0; 1; 3; 4]; [1; 2; 4; 5]] /\
  connectivity Curvilinear 9 [2; 0; 1] = [[0; 1; 4; 3]; [1; 2; 5; 4]] /\
  connectivity Curvilinear 12 [1; 1; 1] = [[0; 1; 3; 2; 4; 5; 7; 6]] /\
  connectivity Rectilinear 3 [0; 0; 2] = [[0; 1]; [1; 2]] /\
  locations_in [2; 2] = [[0; 0]; [1; 0]; [0; 1]; [1; 1]] /\
  num_cells [2; 0; 1] = 2 /\ num_points [2; 0; 1] = 6 /\
  cells (grid_mesh Image [] [2; 0; 1]) = [(8, [[0; 1; 3; 4]; [1; 2; 4; 5]])] /\
  cells (grid_mesh Curvilinear [] [2; 0; 1]) = [(9, [[0; 1; 4; 3]; [1; 2; 5; 4]])].
Proof. vm_compute. repeat split; reflexivity. Qed.
