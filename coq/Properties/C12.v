(* Property C12 — directory mode is the conjunction of file comparisons; every file accounted for. *)
From Coq Require Import NArith Arith Bool List.
From FC Require Import Model.Compare Model.Cli Proofs.CliP Model.Glob Proofs.GlobP Proofs.GlobBracket2P.
Import ListNotations.

Theorem C12_categorize_spec : forall consider supported mapped src ref p,
  let c := categorize consider supported mapped src ref in
  (In p (to_compare c) <-> In p src /\ In p ref /\ consider p = true /\ (supported p = true \/ mapped p = true)) /\
  (In p (missing_src c) <-> ~ In p src /\ In p ref /\ consider p = true) /\
  (In p (missing_ref c) <-> In p src /\ ~ In p ref /\ consider p = true) /\
  (In p (discarded c) <-> In p src /\ In p ref /\ consider p = false) /\
  (In p (unsupported c) <-> In p src /\ In p ref /\ consider p = true /\ supported p = false /\ mapped p = false) /\
  (In p (discarded_orphans c) <-> ((In p src /\ ~ In p ref) \/ (~ In p src /\ In p ref)) /\ consider p = false).
Proof. intros. apply categorize_spec. Qed.
Print Assumptions C12_categorize_spec.

Theorem C12_categorize_partition : forall consider supported mapped src ref,
  NoDup src -> NoDup ref ->
  let c := categorize consider supported mapped src ref in
  NoDup (all_classes c) /\ forall p, In p (all_classes c) <-> In p src \/ In p ref.
Proof. intros. apply categorize_partition; assumption. Qed.
Print Assumptions C12_categorize_partition.

Theorem C12_dir_exit_iff : forall consider supported mapped src ref is_f ir_f fc,
  let c := categorize consider supported mapped src ref in
  cli_dir is_f ir_f c fc = 0 <->
    (forall p, In p (to_compare c) -> exists t, fc p = FSuite t /\ tsuite_bool t = true) /\
    (missing_src c = [] \/ is_f = true) /\ (missing_ref c = [] \/ ir_f = true).
Proof. intros. apply dir_exit_iff. Qed.
Print Assumptions C12_dir_exit_iff.

Theorem C12_exception_is_failure : forall consider supported mapped src ref is_f ir_f fc p,
  let c := categorize consider supported mapped src ref in
  In p (to_compare c) -> fc p = FRaise -> cli_dir is_f ir_f c fc = 1.
Proof. intros. apply exception_is_failure with (p := p); assumption. Qed.
Print Assumptions C12_exception_is_failure.

Theorem C12_accounted_once : forall consider supported mapped src ref is_f ir_f fc,
  let c := categorize consider supported mapped src ref in
  map fst (dir_suites is_f ir_f c fc) = to_compare c ++ missing_src c ++ missing_ref c ++ unsupported c ++ discarded c.
Proof. intros. apply accounted_once. Qed.
Print Assumptions C12_accounted_once.

(* the file filters (Model/Glob.v: PatternFilter over fnmatch, tied to the implementation on generated patterns and paths):
   without --include-files every path is selected, without --exclude-files none is excluded; a pattern made of a directory
   part and '*' selects exactly the paths below that directory, at any depth ('*' also takes '/'); a pattern "*text"
   selects exactly the paths ending in the text; a pattern without wildcard selects exactly itself *)
Theorem C12_default_filters : forall path, pattern_filter include_all path = true /\ pattern_filter exclude_all path = false.
Proof. intros. split; [apply include_all_accepts|apply exclude_all_rejects]. Qed.
Print Assumptions C12_default_filters.

Theorem C12_directory_pattern : forall dir path, plain dir = true ->
  (fnmatch path (dir ++ [c_star]) = true <-> firstn (length dir) path = dir).
Proof. exact prefix_star_matches_prefix. Qed.
Print Assumptions C12_directory_pattern.

Theorem C12_extension_pattern : forall ext path, plain ext = true ->
  (fnmatch path (c_star :: ext) = true <-> exists pre, path = pre ++ ext).
Proof. exact star_suffix_matches_suffix. Qed.
Print Assumptions C12_extension_pattern.

Theorem C12_filter_is_any_pattern : forall ps path,
  pattern_filter ps path = true <-> exists p, In p ps /\ fnmatch path p = true.
Proof. exact pattern_filter_spec. Qed.
Print Assumptions C12_filter_is_any_pattern.

(* a bracket expression between two plain texts ("step_[0-9].vtu", "run[12]/out.csv"): exactly the paths made of the prefix, one
   admitted character and the suffix *)
Theorem C12_bracket_range_between : forall l a c r path,
  plain l = true -> plain r = true -> a <> c_bang -> a <> c_rb -> c <> c_rb -> (a <= c)%N ->
  (fnmatch path (l ++ c_lb :: [a; c_dash; c] ++ c_rb :: r) = true <-> exists y, path = l ++ y :: r /\ (a <= y <= c)%N).
Proof. exact bracket_range_between. Qed.
Print Assumptions C12_bracket_range_between.

Theorem C12_bracket_set_between : forall l x stuff r path,
  plain l = true -> plain r = true -> x <> c_bang -> x <> c_rb -> ~ In c_rb stuff -> ~ In c_dash (x :: stuff) ->
  (fnmatch path (l ++ c_lb :: (x :: stuff) ++ c_rb :: r) = true <-> exists y, path = l ++ y :: r /\ In y (x :: stuff)).
Proof. exact bracket_set_between. Qed.
Print Assumptions C12_bracket_set_between.

(* "s_[0-9].v" against "s_4.v", "s_a.v", "s_4.", "s_44.v" *)
Example C12_bracket_between_nonvacuous :
  let pat := [115; 95; c_lb; 48; c_dash; 57; c_rb; 46; 118]%N in
  fnmatch [115; 95; 52; 46; 118]%N pat = true /\ fnmatch [115; 95; 97; 46; 118]%N pat = false /\
  fnmatch [115; 95; 52; 46]%N pat = false /\ fnmatch [115; 95; 52; 52; 46; 118]%N pat = false.
Proof. exact bracket_between_examples. Qed.

Example C12_nonvacuous :
  let c := categorize (fun p => negb (p =? 5)) (fun p => p <? 3) (fun p => p =? 3) [0;1;3;4;5;6] [1;0;3;4;5;7;8] in
  to_compare c = [0;1;3] /\ unsupported c = [4] /\ discarded c = [5] /\ missing_src c = [7;8] /\ missing_ref c = [6] /\
  cli_dir true true c (fun _ => FSuite {| ts_status := None; ts_tests := [] |}) = 0 /\
  cli_dir false true c (fun _ => FSuite {| ts_status := None; ts_tests := [] |}) = 1.
Proof. vm_compute. repeat split; reflexivity. Qed.

(* "run1/*" selects run1/a/b.csv but not run2/a.csv; "*.vtu" selects x/y.vtu but not x/y.vtp; "[a-c]?.csv" selects b1.csv *)
Example C12_patterns_nonvacuous :
  fnmatch [114;117;110;49;47;97;47;98;46;99;115;118]%N [114;117;110;49;47;42]%N = true /\
  fnmatch [114;117;110;50;47;97;46;99;115;118]%N [114;117;110;49;47;42]%N = false /\
  fnmatch [120;47;121;46;118;116;117]%N [42;46;118;116;117]%N = true /\
  fnmatch [120;47;121;46;118;116;112]%N [42;46;118;116;117]%N = false /\
  fnmatch [98;49;46;99;115;118]%N [91;97;45;99;93;63;46;99;115;118]%N = true /\
  plain [114;117;110;49;47]%N = true.
Proof. vm_compute. repeat split; reflexivity. Qed.
