(* Property C12 — directory mode is the conjunction of file comparisons; every file accounted for. *)
From Coq Require Import Arith Bool List.
From FC Require Import Model.Compare Model.Cli Proofs.CliP.
Import ListNotations.

Theorem C12_categorize_spec : forall consider supported mapped src ref p,
  let c := categorize consider supported mapped src ref in
  (In p (to_compare c) <-> In p src /\ In p ref /\ consider p = true /\ (supported p = true \/ mapped p = true)) /\
  (In p (missing_src c) <-> ~ In p src /\ In p ref /\ consider p = true) /\
  (In p (missing_ref c) <-> In p src /\ ~ In p ref /\ consider p = true) /\
  (In p (discarded c) <-> In p src /\ In p ref /\ consider p = false) /\
  (In p (unsupported c) <-> In p src /\ In p ref /\ consider p = true /\ supported p = false /\ mapped p = false) /\
  (In p (discarded_orphans c) <-> ((In p src /\ ~ In p ref) \/ (~ In p src /\ In p ref)) /\ consider p = false).
Proof. intros. apply categorize_spec. Qed.
Print Assumptions C12_categorize_spec.

Theorem C12_categorize_partition : forall consider supported mapped src ref,
  NoDup src -> NoDup ref ->
  let c := categorize consider supported mapped src ref in
  NoDup (all_classes c) /\ forall p, In p (all_classes c) <-> In p src \/ In p ref.
Proof. intros. apply categorize_partition; assumption. Qed.
Print Assumptions C12_categorize_partition.

Theorem C12_dir_exit_iff : forall consider supported mapped src ref is_f ir_f fc,
  let c := categorize consider supported mapped src ref in
  cli_dir is_f ir_f c fc = 0 <->
    (forall p, In p (to_compare c) -> exists t, fc p = FSuite t /\ tsuite_bool t = true) /\
    (missing_src c = [] \/ is_f = true) /\ (missing_ref c = [] \/ ir_f = true).
Proof. intros. apply dir_exit_iff. Qed.
Print Assumptions C12_dir_exit_iff.

Theorem C12_exception_is_failure : forall consider supported mapped src ref is_f ir_f fc p,
  let c := categorize consider supported mapped src ref in
  In p (to_compare c) -> fc p = FRaise -> cli_dir is_f ir_f c fc = 1.
Proof. intros. apply exception_is_failure with (p := p); assumption. Qed.
Print Assumptions C12_exception_is_failure.

Theorem C12_accounted_once : forall consider supported mapped src ref is_f ir_f fc,
  let c := categorize consider supported mapped src ref in
  map fst (dir_suites is_f ir_f c fc) = to_compare c ++ missing_src c ++ missing_ref c ++ unsupported c ++ discarded c.
Proof. intros. apply accounted_once. Qed.
Print Assumptions C12_accounted_once.

Example C12_nonvacuous :
  let c := categorize (fun p => negb (p =? 5)) (fun p => p <? 3) (fun p => p =? 3) [0;1;3;4;5;6] [1;0;3;4;5;7;8] in
  to_compare c = [0;1;3] /\ unsupported c = [4] /\ discarded c = [5] /\ missing_src c = [7;8] /\ missing_ref c = [6] /\
  cli_dir true true c (fun _ => FSuite {| ts_status := None; ts_tests := [] |}) = 0 /\
  cli_dir false true c (fun _ => FSuite {| ts_status := None; ts_tests := [] |}) = 1.
Proof. vm_compute. repeat split; reflexivity. Qed.
