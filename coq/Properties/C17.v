(* Property C17 — space-dimension matching only adds zeros. *)
From Coq Require Import QArith Qabs Qminmax Arith Bool List.
From FC Require Import Model.Scalar Model.Mesh Proofs.ScalarP Proofs.MeshP.
Import ListNotations.
Local Open Scope nat_scope.

Theorem C17_extend_only_appends_zeros : forall d M,
  cells (extend_points d M) = cells M /\
  length (pts (extend_points d M)) = length (pts M) /\
  forall i, i < length (pts M) ->
    exists z, nth i (pts (extend_points d M)) [] = nth i (pts M) [] ++ z /\ Forall (fun q => q = 0%Q) z.
Proof. exact extend_only_appends_zeros. Qed.
Print Assumptions C17_extend_only_appends_zeros.

Theorem C17_pad_row : forall d r,
  pad_row d r = r ++ repeat 0%Q (d - length r) /\ firstn (length r) (pad_row d r) = r /\
  (length r <= d -> length (pad_row d r) = d) /\ (d <= length r -> pad_row d r = r).
Proof. exact pad_row_spec. Qed.
Print Assumptions C17_pad_row.

(* without matching, meshes of different space dimension are never equal (point rows of different length) *)
Theorem C17_dimension_mismatch_unequal : forall rel abs p q,
  length p <> length q -> point_close rel abs p q = false.
Proof.
  intros rel abs p q H. destruct (point_close rel abs p q) eqn:E; [|reflexivity].
  exfalso. apply H. apply (point_close_spec rel abs p q E).
Qed.
Print Assumptions C17_dimension_mismatch_unequal.

(* a padded coordinate that is not within tolerance of zero makes the extended meshes unequal *)
Theorem C17_nonzero_extra_fails : forall rel abs A B i d,
  NoDup (cell_types B) -> i < length (pts A) -> d < length (nth i (pts A) []) ->
  ~ formula (nth d (nth i (pts A) []) 0%Q) (nth d (nth i (pts B) []) 0%Q) rel abs ->
  mesh_equal rel abs A B = false.
Proof. exact moved_point_unequal. Qed.
Print Assumptions C17_nonzero_extra_fails.

(* a mesh equals its own zero-padded copy after extension: extension is idempotent on already padded rows *)
Theorem C17_padded_equal_after_extension : forall rel abs d (P : list point),
  (0 <= abs)%Q -> Forall (fun p => length p <= d) P ->
  points_close rel abs (map (pad_row d) P) (map (pad_row d) (map (pad_row d) P)) = true.
Proof.
  intros rel abs d P Habs HF.
  assert (E : map (pad_row d) (map (pad_row d) P) = map (pad_row d) P).
  { rewrite map_map. apply map_ext_in. intros p Hp. rewrite Forall_forall in HF.
    destruct (pad_row_spec d (pad_row d p)) as [_ [_ [_ X]]]. apply X.
    destruct (pad_row_spec d p) as [_ [_ [Y _]]]. rewrite Y by (apply HF; exact Hp). apply Nat.le_refl. }
  rewrite E. apply points_close_refl. exact Habs.
Qed.
Print Assumptions C17_padded_equal_after_extension.

(* the command line (fixed by 31ec1de, F-C17a): with the matching enabled a pair of different space dimension whose extended
   views are equal passes under every setting of the reordering option; with the matching disabled only the views as
   stored count; the dispatch found at the pinned commit is refuted by a 2-d mesh and its zero-padded twin under
   --disable-mesh-reordering *)
Theorem C17_cli_matches_dimensions : forall eq dr bs v,
  (let '(a0, b0) := lv_as_is v in (space_dim a0 =? space_dim b0) = false) ->
  (let '(a1, b1) := lv_extended v in eq a1 b1 = true) ->
  cli_mesh_fixed eq false dr bs v = true.
Proof. exact cli_mesh_fixed_matches_dimensions. Qed.
Print Assumptions C17_cli_matches_dimensions.

Theorem C17_cli_matching_disabled : forall eq bs v,
  cli_mesh_fixed eq true true bs v = (let '(a0, b0) := lv_as_is v in eq a0 b0).
Proof. exact cli_mesh_fixed_disabled. Qed.
Print Assumptions C17_cli_matching_disabled.

Theorem C17_cli_pinned_refuted :
  exists v, (space_dim (fst (lv_as_is v)) =? space_dim (snd (lv_as_is v))) = false /\
            mesh_equal 0%Q 0%Q (fst (lv_extended v)) (snd (lv_extended v)) = true /\
            cli_mesh_pinned (mesh_equal 0%Q 0%Q) false true false v = false /\
            cli_mesh_fixed (mesh_equal 0%Q 0%Q) false true false v = true.
Proof. exact cli_mesh_pinned_refuted. Qed.
Print Assumptions C17_cli_pinned_refuted.

(* the table of the three mesh options (C04's mesh option matrix runs it exhaustively against the command line): a pair holding
   the same mesh, the second stored with another space dimension / in another order / with an unconnected point, fails iff an
   option switches off the very mechanism the pair needs — given what extension, stripping and sorting achieve on the pair *)
Theorem C17_mesh_option_table : forall eq v (dim3 perm ghost lucky dd dr dor : bool),
  (space_dim (fst (lv_as_is v)) =? space_dim (snd (lv_as_is v))) = negb dim3 ->
  eq (fst (lv_as_is v)) (snd (lv_as_is v)) = negb dim3 && negb perm && negb ghost ->
  eq (fst (lv_extended v)) (snd (lv_extended v)) = (negb dim3 || negb dd) && negb perm && negb ghost ->
  eq (fst (lv_sorted_points v)) (snd (lv_sorted_points v))
    = (negb dim3 || negb dd) && (negb ghost || negb dor) && (negb perm || lucky) ->
  eq (fst (lv_sorted_cells v)) (snd (lv_sorted_cells v)) = (negb dim3 || negb dd) && (negb ghost || negb dor) ->
  cli_mesh_fixed eq dd dr false v = negb ((dim3 && dd) || (perm && dr) || (ghost && (dr || dor))).
Proof. exact ladder_option_table. Qed.
Print Assumptions C17_mesh_option_table.

Example C17_nonvacuous :
  let M := {| pts := [[1#1; 2#1]; [3#1; 4#1]]; cells := [(3, [[0;1]])] |} in
  pts (extend_points 3 M) = [[1#1; 2#1; 0#1]; [3#1; 4#1; 0#1]] /\
  mesh_equal 0%Q 0%Q (extend_points 3 M) {| pts := [[1#1; 2#1; 0#1]; [3#1; 4#1; 0#1]]; cells := [(3, [[0;1]])] |} = true /\
  mesh_equal 0%Q (1#100) (extend_points 3 M) {| pts := [[1#1; 2#1; 0#1]; [3#1; 4#1; 1#2]]; cells := [(3, [[0;1]])] |} = false /\
  mesh_equal 0%Q 0%Q M (extend_points 3 M) = false.
Proof. vm_compute. repeat split; reflexivity. Qed.
