(* Property C20 — the JUnit report agrees with the verdict. *)
From Coq Require Import Arith Bool List.
From FC Require Import Model.Compare Model.Cli Proofs.CliP.
Import ListNotations.

Theorem C20_junit_counts : forall syn s,
  let j := junit_of syn s in
  j_tests j = length (j_cases j) /\
  j_failures j = length (filter (fun c => match snd c with [0] => true | _ => false end) (j_cases j)) /\
  j_errors j = length (filter (fun c => match snd c with [0; 1] => true | _ => false end) (j_cases j)) /\
  j_skipped j = length (filter (fun c => match snd c with [2] => true | _ => false end) (j_cases j)) /\
  map fst (j_cases j) = map fst (junit_tests syn s).
Proof. exact junit_counts. Qed.
Print Assumptions C20_junit_counts.

(* one test case per reported comparison (plus at most one case carrying the verdict of a suite that failed as a whole) *)
Theorem C20_junit_cases_are_reports : forall syn s,
  junit_tests syn s = ts_tests s \/
  (junit_tests syn s = ts_tests s ++ [(syn, tsuite_status s)] /\ tsuite_bool s = false /\ tests_ok (ts_tests s) = true).
Proof. exact junit_cases_are_reports. Qed.
Print Assumptions C20_junit_cases_are_reports.

(* full statement (no guard since the repair of F-C20a): failure/error element iff non-zero exit code *)
Theorem C20_junit_agrees_with_exit : forall syn s,
  consistent s -> (junit_has_failure (junit_of syn s) = true <-> exit_code (tsuite_bool s) <> 0).
Proof. exact junit_agrees_with_exit. Qed.
Print Assumptions C20_junit_agrees_with_exit.

(* all suites the CLI produces are consistent: field-comparison suites, status-only suites, merged sequence suites *)
Theorem C20_cli_suites_consistent : forall is ir S,
  consistent (to_tsuite is ir S) /\ (forall st, consistent {| ts_status := Some st; ts_tests := [] |}) /\
  (forall s1 s2, consistent s1 -> consistent s2 -> consistent (merge_suites s1 s2)).
Proof.
  intros is ir S. split; [|split].
  - unfold consistent, to_tsuite. destruct (dom_ok S); simpl; [|reflexivity]. unfold tsuite_bool. simpl. tauto.
  - intros st H. reflexivity.
  - intros s1 s2 C1 C2. exact (proj2 (merge_bool s1 s2 C1 C2)).
Qed.
Print Assumptions C20_cli_suites_consistent.

Theorem C20_junit_skipped_exact : forall syn is ir S n st,
  dom_ok S = true -> In (n, st) (entries S) ->
  (In (n, [2]) (j_cases (junit_of syn (to_tsuite is ir S))) <->
   In (n, Filtered) (entries S) \/ (In (n, MissingSource) (entries S) /\ is = true) \/
   (In (n, MissingReference) (entries S) /\ ir = true)).
Proof. exact junit_skipped_exact. Qed.
Print Assumptions C20_junit_skipped_exact.

Example C20_nonvacuous :
  let s := {| ts_status := None; ts_tests := [(0, TPassed); (1, TFailed); (2, TError); (3, TSkipped)] |} in
  let d := {| ts_status := Some TError; ts_tests := [] |} in
  junit_of 9 s = {| j_tests := 4; j_failures := 1; j_errors := 1; j_skipped := 1;
                    j_cases := [(0, []); (1, [0]); (2, [0; 1]); (3, [2])] |} /\
  junit_has_failure (junit_of 9 s) = true /\ exit_code (tsuite_bool s) = 1 /\
  junit_of 9 d = {| j_tests := 1; j_failures := 0; j_errors := 1; j_skipped := 0; j_cases := [(9, [0; 1])] |}.
Proof. vm_compute. repeat split; reflexivity. Qed.
