(* Property C20 — the JUnit report agrees with the verdict. *)
From Coq Require Import Arith Bool List.
From FC Require Import Model.Compare Model.Cli Proofs.CliP.
Import ListNotations.

Theorem C20_junit_counts : forall s,
  let j := junit_of s in
  j_tests j = length (j_cases j) /\
  j_failures j = length (filter (fun c => match snd c with [0] => true | _ => false end) (j_cases j)) /\
  j_errors j = length (filter (fun c => match snd c with [0; 1] => true | _ => false end) (j_cases j)) /\
  j_skipped j = length (filter (fun c => match snd c with [2] => true | _ => false end) (j_cases j)) /\
  map fst (j_cases j) = map fst (ts_tests s).
Proof. exact junit_counts. Qed.
Print Assumptions C20_junit_counts.

Theorem C20_junit_failure_iff_tests : forall s, junit_has_failure (junit_of s) = negb (tests_ok (ts_tests s)).
Proof. exact junit_failure_iff_tests. Qed.
Print Assumptions C20_junit_failure_iff_tests.

Theorem C20_junit_agrees_with_exit : forall s,
  (ts_status s = None \/ tsuite_bool s = tests_ok (ts_tests s)) ->
  (junit_has_failure (junit_of s) = true <-> exit_code (tsuite_bool s) <> 0).
Proof. exact junit_agrees_with_exit. Qed.
Print Assumptions C20_junit_agrees_with_exit.

Theorem C20_junit_skipped_exact : forall is ir S n st,
  dom_ok S = true -> In (n, st) (entries S) ->
  (In (n, [2]) (j_cases (junit_of (to_tsuite is ir S))) <->
   In (n, Filtered) (entries S) \/ (In (n, MissingSource) (entries S) /\ is = true) \/
   (In (n, MissingReference) (entries S) /\ ir = true)).
Proof. exact junit_skipped_exact. Qed.
Print Assumptions C20_junit_skipped_exact.

Example C20_nonvacuous :
  let s := {| ts_status := None; ts_tests := [(0, TPassed); (1, TFailed); (2, TError); (3, TSkipped)] |} in
  junit_of s = {| j_tests := 4; j_failures := 1; j_errors := 1; j_skipped := 1;
                  j_cases := [(0, []); (1, [0]); (2, [0; 1]); (3, [2])] |} /\
  junit_has_failure (junit_of s) = true /\ exit_code (tsuite_bool s) = 1.
Proof. vm_compute. repeat split; reflexivity. Qed.
