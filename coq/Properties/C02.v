(* Property C02 — mesh comparison is invariant under point/cell reordering; sorting is canonical.
   Proved part (noise-free, exact coordinates): ANY two arrangements that meet the sorting specification are identical,
   and the sorted view of a data set depends only on its geometry; together with C08 (views only relabel) and C10
   (reflexivity of the predicates) this gives identical sorted representations and a passing comparison for data sets
   that are equal up to relabeling.  The index maps the implementation produces are checked against the specification
   on every run (T3).  Noisy case: coordinates are abstracted to cluster indices (a monotone step function per column);
   any two arrangements sorted by class vector are pointwise within tolerance; the premises are decided per run by a
   verified checker on the implementation's sorted views. *)
From Coq Require Import ZArith Arith Bool List Permutation.
From Coq Require Import QArith.
From FC Require Import Model.Scalar Model.Mesh Model.SortSpec Model.FuzzySort Model.FuzzySortAlgo Proofs.SortP Proofs.FuzzySortP Proofs.FuzzySortAlgoP Proofs.CornerP.
Import ListNotations.
Local Open Scope nat_scope.

Theorem C02_sorted_points_unique : forall l1 l2 : list zpoint,
  sorted_strict l1 = true -> sorted_strict l2 = true -> Permutation l1 l2 -> l1 = l2.
Proof. exact sorted_points_unique. Qed.
Print Assumptions C02_sorted_points_unique.

Theorem C02_sorted_cells_unique : forall l1 l2 : list Z,
  increasing l1 = true -> increasing l2 = true -> Permutation l1 l2 -> l1 = l2.
Proof. exact sorted_keys_unique. Qed.
Print Assumptions C02_sorted_cells_unique.

(* the connectivity of the sorted view is a function of the corner COORDINATES and the sorted point list only *)
Theorem C02_canonical_row : forall (P S : list zpoint) (p : list nat) (row : list nat),
  NoDup S -> S = map (fun i => nth i P []) p ->
  forall row', map (fun k => nth k p 0) row' = row -> Forall (fun k => k < length p) row' ->
  map Some row' = map (fun c => pos_of S (nth c P [])) row.
Proof. exact canonical_row. Qed.
Print Assumptions C02_canonical_row.

(* what the T3 checkers establish about the implementation's index maps *)
Theorem C02_check_point_sort_sound : forall P p,
  check_point_sort P p = true -> Sorted.StronglySorted lex_lt (map (fun i => nth i P []) p).
Proof. intros P p H. apply sorted_strict_spec. exact H. Qed.
Print Assumptions C02_check_point_sort_sound.

(* ---- coordinates with noise far below the tolerance ------------------------------------------------------------ *)
(* cluster index of a coordinate: monotone, so ordering by value and ordering by class never contradict each other *)
Theorem C02_class_index_monotone : forall bs u v, (u <= v)%Q -> (kappa bs u <= kappa bs v)%Z.
Proof. exact kappa_monotone. Qed.
Print Assumptions C02_class_index_monotone.

(* ANY two arrangements with strictly increasing class vectors over the same collection of classes are within tolerance
   of each other point by point, provided points of one class are within tolerance (noise below tolerance) *)
Theorem C02_noisy_sorted_points_close : forall bss rel abs (v1 v2 : list point),
  sorted_strict (map (cls bss) v1) = true -> sorted_strict (map (cls bss) v2) = true ->
  Permutation (map (cls bss) v1) (map (cls bss) v2) ->
  (forall p q, In p v1 -> In q v2 -> cls bss p = cls bss q -> point_close rel abs p q = true) ->
  points_close rel abs v1 v2 = true.
Proof. exact noisy_sorted_points_close. Qed.
Print Assumptions C02_noisy_sorted_points_close.

(* the premises are decided at run time on the views the implementation produced, by this verified checker *)
Theorem C02_check_noisy_sorted_sound : forall bss rel abs v1 v2,
  check_noisy_sorted bss rel abs v1 v2 = true -> points_close rel abs v1 v2 = true.
Proof. exact check_noisy_sorted_sound. Qed.
Print Assumptions C02_check_noisy_sorted_sound.

(* the sorting STRATEGY of the library (sort by the first column, then re-sort every maximal run of neighbours that agree in
   all previous columns by the next column — as repaired by the fix of F-C02a), modelled on class vectors with an arbitrary
   column sorter, meets the specification for EVERY input: the premises of the theorems above are satisfiable by it *)
Theorem C02_block_refinement_meets_spec :
  forall (sortby : nat -> list zpoint -> list zpoint),
  (forall k l, Permutation (sortby k l) l) ->
  (forall k l, Sorted.StronglySorted (fun p q => (nth k p 0 <= nth k q 0)%Z) (sortby k l)) ->
  forall d l, Forall (wfp d) l -> NoDup l ->
  sorted_strict (fuzzy_lex_sort sortby d l) = true /\ Permutation (fuzzy_lex_sort sortby d l) l.
Proof.
  intros sortby HP HS d l HW ND. split.
  - apply fuzzy_lex_sort_meets_spec; assumption.
  - apply (fuzzy_lex_sort_correct sortby HP HS d l HW).
Qed.
Print Assumptions C02_block_refinement_meets_spec.

Theorem C02_insertion_sorter_is_a_column_sorter : forall k l,
  Permutation (isort_by k l) l /\ Sorted.StronglySorted (fun p q => (nth k p 0 <= nth k q 0)%Z) (isort_by k l).
Proof. intros. split; [apply isort_by_perm | apply isort_by_sorted]. Qed.
Print Assumptions C02_insertion_sorter_is_a_column_sorter.

Example C02_nonvacuous :
  let P := [[2;0]; [0;1]; [0;0]; [1;5]]%Z in
  check_point_sort P [2;1;3;0] = true /\ check_point_sort P [1;2;3;0] = false /\
  pos_of (map (fun i => nth i P []) [2;1;3;0]) [1;5]%Z = Some 2 /\
  (* two noisy copies of the points (0,0),(0,1),(1,0) in different order of arrival, both sorted by class *)
  check_noisy_sorted [[1#2]; [1#2]] 0%Q (1#100)
     [[0#1; 1#1000]; [1#1000; 1#1]; [1#1; 0#1]] [[1#1000; 0#1]; [0#1; 999#1000]; [999#1000; 1#1000]] = true /\
  check_noisy_sorted [[1#2]; [1#2]] 0%Q (1#100)
     [[1#1000; 1#1]; [0#1; 1#1000]; [1#1; 0#1]] [[1#1000; 0#1]; [0#1; 999#1000]; [999#1000; 1#1000]] = false.
Proof. vm_compute. repeat split; reflexivity. Qed.

(* ---- the corner order of a cell is not part of what is compared ------------------------------------------------ *)
(* any per-cell rearrangement of the corner lists (f may be a different permutation for every cell) leaves the verdict
   "equal": relabeled meshes may list a cell from another start corner or in the other orientation *)
Theorem C02_corner_order_irrelevant : forall rel abs (f : list nat -> list nat) M,
  (0 <= abs)%Q -> NoDup (cell_types M) -> (forall r, Permutation r (f r)) ->
  mesh_equal rel abs M (map_corners f M) = true.
Proof. exact corner_order_irrelevant. Qed.
Print Assumptions C02_corner_order_irrelevant.

Theorem C02_start_corner_irrelevant : forall rel abs k M,
  (0 <= abs)%Q -> NoDup (cell_types M) -> mesh_equal rel abs M (map_corners (rotate k) M) = true.
Proof. exact start_corner_irrelevant. Qed.
Print Assumptions C02_start_corner_irrelevant.

Theorem C02_orientation_irrelevant : forall rel abs M,
  (0 <= abs)%Q -> NoDup (cell_types M) -> mesh_equal rel abs M (map_corners (@rev nat) M) = true.
Proof. exact orientation_irrelevant. Qed.
Print Assumptions C02_orientation_irrelevant.

(* the premises are met by a two-block mesh, the rotated mesh is a different value, and another corner SET is told apart *)
Example C02_corner_order_nonvacuous :
  let M := {| pts := [[0#1; 0#1]; [1#1; 0#1]; [1#1; 1#1]; [0#1; 1#1]]%Q; cells := [(5, [[0; 1; 2]; [0; 2; 3]]); (3, [[0; 1]])] |} in
  NoDup (cell_types M) /\
  mesh_equal (1#1000) (0#1) M (map_corners (rotate 1) M) = true /\
  map_corners (rotate 1) M <> M /\
  mesh_equal (1#1000) (0#1) M {| pts := pts M; cells := [(5, [[0; 1; 3]; [0; 2; 3]]); (3, [[0; 1]])] |} = false.
Proof. exact corner_order_example. Qed.
