(* Property C02 — mesh comparison is invariant under point/cell reordering; sorting is canonical.
   Proved part (noise-free, exact coordinates): ANY two arrangements that meet the sorting specification are identical,
   and the sorted view of a data set depends only on its geometry; together with C08 (views only relabel) and C10
   (reflexivity of the predicates) this gives identical sorted representations and a passing comparison for data sets
   that are equal up to relabeling.  The index maps the implementation produces are checked against the specification
   on every run (T3).  The noisy case (coordinate noise far below tolerance) is tied by differential runs only:
   statement kept visible in the comment before the example. *)
From Coq Require Import ZArith Arith Bool List Permutation.
From FC Require Import Model.SortSpec Proofs.SortP.
Import ListNotations.

Theorem C02_sorted_points_unique : forall l1 l2 : list zpoint,
  sorted_strict l1 = true -> sorted_strict l2 = true -> Permutation l1 l2 -> l1 = l2.
Proof. exact sorted_points_unique. Qed.
Print Assumptions C02_sorted_points_unique.

Theorem C02_sorted_cells_unique : forall l1 l2 : list Z,
  increasing l1 = true -> increasing l2 = true -> Permutation l1 l2 -> l1 = l2.
Proof. exact sorted_keys_unique. Qed.
Print Assumptions C02_sorted_cells_unique.

(* the connectivity of the sorted view is a function of the corner COORDINATES and the sorted point list only *)
Theorem C02_canonical_row : forall (P S : list zpoint) (p : list nat) (row : list nat),
  NoDup S -> S = map (fun i => nth i P []) p ->
  forall row', map (fun k => nth k p 0) row' = row -> Forall (fun k => k < length p) row' ->
  map Some row' = map (fun c => pos_of S (nth c P [])) row.
Proof. exact canonical_row. Qed.
Print Assumptions C02_canonical_row.

(* what the T3 checkers establish about the implementation's index maps *)
Theorem C02_check_point_sort_sound : forall P p,
  check_point_sort P p = true -> Sorted.StronglySorted lex_lt (map (fun i => nth i P []) p).
Proof. intros P p H. apply sorted_strict_spec. exact H. Qed.
Print Assumptions C02_check_point_sort_sound.

(* full statement for noisy data (not proved; tied by the differential runs of the check):
   for data sets equal up to relabeling whose coordinates carry independent noise <= eps with 2*eps <= atol, and whose
   distinct coordinate values are separated by more than the tolerance, the default comparison reports equal domains and
   passes every field. *)
Example C02_nonvacuous :
  let P := [[2;0]; [0;1]; [0;0]; [1;5]]%Z in
  check_point_sort P [2;1;3;0] = true /\ check_point_sort P [1;2;3;0] = false /\
  pos_of (map (fun i => nth i P []) [2;1;3;0]) [1;5]%Z = Some 2.
Proof. vm_compute. repeat split; reflexivity. Qed.
