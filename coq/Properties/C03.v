(* Property C03 — a passing mesh comparison implies equality up to reordering (no false PASS). *)
From Coq Require Import QArith Qabs Qminmax Arith Bool List Permutation.
From Coq Require PrimFloat.
From FC Require Import Model.Scalar Model.Mesh Model.Compare Proofs.ScalarP Proofs.MeshP Proofs.CompareP.
Import ListNotations.
Local Open Scope nat_scope.

(* what a positive answer of the domain check means, for ANY two meshes (in particular for any two views that the
   comparator's reordering stages produce, however well or badly the sorting worked) *)
Theorem C03_mesh_equal_sound : forall rel abs A B,
  NoDup (cell_types B) ->
  mesh_equal rel abs A B = true ->
  length (pts A) = length (pts B) /\
  (forall i, i < length (pts A) ->
     length (nth i (pts A) []) = length (nth i (pts B) []) /\
     forall d, d < length (nth i (pts A) []) -> formula (nth d (nth i (pts A) []) 0%Q) (nth d (nth i (pts B) []) 0%Q) rel abs) /\
  exists pairs,
    map fst pairs = cell_types A /\ Permutation (map snd pairs) (cell_types B) /\
    forall st, In st pairs ->
      compat (fst st) (snd st) = true /\
      length (rows_of (fst st) (cells A)) = length (rows_of (snd st) (cells B)) /\
      forall j, j < length (rows_of (fst st) (cells A)) ->
        Permutation (nth j (rows_of (fst st) (cells A)) []) (nth j (rows_of (snd st) (cells B)) []).
Proof. exact mesh_equal_sound. Qed.
Print Assumptions C03_mesh_equal_sound.

(* the views only relabel (C08), so the index correspondence of the views is a matching of the ORIGINAL points:
   point k of the source view is original point p[k]; likewise for the reference; their coordinates are compared pairwise *)
Theorem C03_view_matching : forall (A : Type) (d : A) M p M' data k,
  permute_points M p = Some M' -> k < length p ->
  nth k (pts M') [] = nth (nth k p 0) (pts M) [] /\ nth k (permute_point_data d data p) d = nth (nth k p 0) data d.
Proof. exact @permute_points_data. Qed.
Print Assumptions C03_view_matching.

Theorem C03_moved_point_fails : forall rel abs A B i d,
  NoDup (cell_types B) -> i < length (pts A) -> d < length (nth i (pts A) []) ->
  ~ formula (nth d (nth i (pts A) []) 0%Q) (nth d (nth i (pts B) []) 0%Q) rel abs ->
  mesh_equal rel abs A B = false.
Proof. exact moved_point_unequal. Qed.
Print Assumptions C03_moved_point_fails.

Theorem C03_type_on_one_side_fails : forall rel abs A B,
  NoDup (cell_types B) -> length (cell_types A) <> length (cell_types B) -> mesh_equal rel abs A B = false.
Proof. exact type_count_mismatch_unequal. Qed.
Print Assumptions C03_type_on_one_side_fails.

Theorem C03_point_count_mismatch_fails : forall rel abs A B,
  NoDup (cell_types B) -> length (pts A) <> length (pts B) -> mesh_equal rel abs A B = false.
Proof. exact point_count_mismatch_unequal. Qed.
Print Assumptions C03_point_count_mismatch_fails.

(* the comparator's retry ladder accepts only what one of its equality checks accepted: a pass of the whole comparison is
   a pass of mesh_equal on one of the view pairs, to which C03_mesh_equal_sound and C08 (views only relabel) apply *)
Theorem C03_ladder_pass_sound : forall eq dd dr bs v,
  fst (ladder eq dd dr bs v) = true ->
  (let '(a, b) := lv_as_is v in eq a b = true) \/ (let '(a, b) := lv_extended v in eq a b = true) \/
  (let '(a, b) := lv_sorted_points v in eq a b = true) \/ (let '(a, b) := lv_sorted_cells v in eq a b = true).
Proof. exact ladder_pass_sound. Qed.
Print Assumptions C03_ladder_pass_sound.

Theorem C03_ladder_no_reorder : forall eq dd bs v,
  fst (ladder eq dd true bs v) = true ->
  (let '(a, b) := lv_as_is v in eq a b = true) \/ (dd = false /\ let '(a, b) := lv_extended v in eq a b = true).
Proof. exact ladder_no_reorder. Qed.
Print Assumptions C03_ladder_no_reorder.

(* the suite is false whenever the domain check is false or a compared field failed (C11) *)
Theorem C03_suite_false_if_domain_false : forall incl excl out src ref,
  suite_bool (compare false incl excl out src ref) = false.
Proof. intros. apply domain_fail_empty. Qed.
Print Assumptions C03_suite_false_if_domain_false.

(* a field present on both sides and selected by the filters whose comparison answers 'failed' OR ends in an error (the
   predicate raised) makes the whole suite false — whatever the domain verdict and the other fields are *)
Theorem C03_suite_false_if_a_field_failed_or_errored : forall d incl excl out src ref f,
  NoDup (names src) -> NoDup (names ref) ->
  In f src -> In (fname f) (names ref) -> selected incl excl f = true ->
  (out (fname f) = OFail \/ out (fname f) = ORaise) ->
  suite_bool (compare d incl excl out src ref) = false.
Proof.
  intros d incl excl out src ref f NS NR Hf Hr Hsel Hout.
  destruct d; [|apply domain_fail_empty].
  destruct (suite_bool (compare true incl excl out src ref)) eqn:E; [|reflexivity]. exfalso.
  apply verdict_iff in E. destruct E as [_ E].
  assert (Hin : In (fname f, status_of (out (fname f))) (entries (compare true incl excl out src ref))).
  { apply (status_correct incl excl out src ref NS NR). left. exists f. repeat split; assumption. }
  destruct (E _ Hin) as [E1 E2]. cbn [snd] in E1, E2.
  destruct Hout as [H|H]; rewrite H in E1, E2; cbn in E1, E2; congruence.
Qed.
Print Assumptions C03_suite_false_if_a_field_failed_or_errored.

(* binary64 kernel of the fuzzy formula (Model/Scalar.v, bit-exact tie in C01): a pass implies a FINITE deviation — an entry
   that is infinite on one side never passes; the kernel as found at the pinned commit accepted it (F-C03b, fixed 2461513) *)
Theorem C03_pass_implies_finite_deviation : forall a b rel abs,
  fuzzy_f a b rel abs = true ->
  PrimFloat.ltb (PrimFloat.abs (PrimFloat.sub b a)) PrimFloat.infinity = true.
Proof. intros a b rel abs H. unfold fuzzy_f in H. apply andb_prop in H. exact (proj2 H). Qed.
Print Assumptions C03_pass_implies_finite_deviation.

Theorem C03_infinite_entry_pinned_refuted :
  fuzzy_f_pinned f_one f_inf f_eps f_zero = true /\
  fuzzy_f_pinned f_inf f_ninf f_eps f_zero = true /\
  fuzzy_f f_one f_inf f_eps f_zero = false /\
  fuzzy_f f_inf f_ninf f_half f_million = false /\
  fuzzy_f f_one f_three_halves f_half f_zero = true.
Proof. vm_compute. repeat split; reflexivity. Qed.
Print Assumptions C03_infinite_entry_pinned_refuted.

Example C03_nonvacuous :
  let A := {| pts := [[0#1;0#1]; [1#1;0#1]; [1#1;1#1]; [0#1;1#1]]; cells := [(9, [[0;1;2;3]])] |} in
  let B := {| pts := [[0#1;0#1]; [1#1;0#1]; [1#1;1#1]; [0#1;1#1]]; cells := [(8, [[0;1;3;2]])] |} in
  let C := {| pts := [[0#1;0#1]; [1#1;0#1]; [1#1;1#1]; [0#1;1#1]]; cells := [(9, [[0;1;2;3]]); (5, [[0;1;2]])] |} in
  mesh_equal (1#100) 0%Q A B = true /\ mesh_equal (1#100) 0%Q A C = false /\ mesh_equal (1#100) 0%Q C A = false /\
  NoDup (cell_types B).
Proof. vm_compute. repeat split; try reflexivity. repeat constructor; simpl; intuition discriminate. Qed.
