(* Property C15 — sequences are compared step by step and pass only if every step passes. *)
From Coq Require Import Arith Bool List.
From FC Require Import Model.Compare Model.Cli Proofs.CliP.
Import ListNotations.

Theorem C15_iter_all_in_order : forall (A : Type) (p : list A) (c : nat),
  p <> [] -> fst (iterate {| pieces := p; cursor := c |}) = map Some p.
Proof. intros. apply iter_all_in_order. assumption. Qed.
Print Assumptions C15_iter_all_in_order.

Theorem C15_iter_repeatable : forall (A : Type) (s : source A),
  pieces s <> [] -> fst (iterate (snd (iterate s))) = fst (iterate s) /\ pieces (snd (iterate s)) = pieces s.
Proof. intros. apply iter_repeatable. assumption. Qed.
Print Assumptions C15_iter_repeatable.

Theorem C15_seq_verdict : forall (D : Type) (cmp : D -> D -> tsuite),
  (forall a b, consistent (cmp a b)) ->
  forall ign force res ref,
  let r := compare_seq cmp ign force res ref in
  (tsuite_bool (fst r) = true <->
     (forall p, In p (combine res ref) -> tsuite_bool (cmp (fst p) (snd p)) = true) /\
     (length res = length ref \/ ign = true)) /\
  (snd r = seq 0 (min (length res) (length ref)) \/
   (snd r = [] /\ length res <> length ref /\ ign = false /\ force = false)).
Proof. intros. apply seq_verdict. assumption. Qed.
Print Assumptions C15_seq_verdict.

Theorem C15_force_still_fails : forall (D : Type) (cmp : D -> D -> tsuite),
  (forall a b, consistent (cmp a b)) ->
  forall ign res ref, length res <> length ref -> ign = false ->
  tsuite_bool (fst (compare_seq cmp ign true res ref)) = false /\
  snd (compare_seq cmp ign true res ref) = seq 0 (min (length res) (length ref)).
Proof. intros. apply force_still_fails; assumption. Qed.
Print Assumptions C15_force_still_fails.

Theorem C15_seq_vs_single_nonzero : forall (D : Type) (cmp : D -> D -> tsuite) ign force a l,
  cli_file cmp ign force (RData a) (RSeq l) = 1 /\ cli_file cmp ign force (RSeq l) (RData a) = 1.
Proof. intros. apply seq_vs_single_nonzero. Qed.
Print Assumptions C15_seq_vs_single_nonzero.

(* the per-step suites produced by the CLI are consistent, so the theorems above apply to them *)
Theorem C15_step_suites_consistent : forall is ir S, consistent (to_tsuite is ir S).
Proof.
  intros is ir S. unfold consistent, to_tsuite. destruct (dom_ok S); simpl; [|reflexivity].
  unfold tsuite_bool. simpl. tauto.
Qed.
Print Assumptions C15_step_suites_consistent.

Theorem C15_merged_status_sticky : forall s1 s2,
  consistent s1 -> consistent s2 -> tsuite_bool s1 = false -> tsuite_bool (merge_suites s1 s2) = false.
Proof. exact merged_status_sticky. Qed.
Print Assumptions C15_merged_status_sticky.

Example C15_nonvacuous :
  let ok := {| ts_status := None; ts_tests := [(0, TPassed)] |} in
  let bad := {| ts_status := None; ts_tests := [(0, TFailed)] |} in
  let cmp (a b : nat) := if a =? b then ok else bad in
  tsuite_bool (fst (compare_seq cmp false false [1;2;3] [1;2;3])) = true /\
  tsuite_bool (fst (compare_seq cmp false false [1;2;3] [1;2;4])) = false /\
  tsuite_bool (fst (compare_seq cmp false true [1;2;3] [1;2])) = false /\
  snd (compare_seq cmp false true [1;2;3] [1;2]) = [0;1] /\
  tsuite_bool (fst (compare_seq cmp true false [1;2;3] [1;2])) = true /\
  fst (iterate {| pieces := [7;8;9]; cursor := 2 |}) = [Some 7; Some 8; Some 9].
Proof. vm_compute. repeat split; reflexivity. Qed.
