(* Property C18 — a truncated or damaged result file never compares as passed (PARTIAL).
   Proved here: the decision layer — whatever goes wrong while reading a damaged file (IOError, any other exception), or
   whatever content survives with a field or rows lost, the exit code is non-zero, in BOTH roles.
   and the text structure of a cut csv table (C18_csv_truncated_differs).
   Not modelled (exercised exhaustively over cut positions by the check): expat, the raw-appended fallback parser,
   np.genfromtxt's typing of the cells of a damaged table. *)
From Coq Require Import QArith Arith Bool List.
From FC Require Import Model.Scalar Model.Predicates Model.Compare Model.Cli Model.CliFile Model.Codec Proofs.CompareP Proofs.CliP Proofs.CodecP.
Import ListNotations.
Local Open Scope nat_scope.

Theorem C18_damaged_nonzero_both_roles : forall rargs aargs incl excl is ir ign force (good : readres dataset),
  forall bad, (bad = RIOErr \/ bad = ROther) ->
  cli_file_datasets rargs aargs incl excl is ir ign force bad good = 1 /\
  cli_file_datasets rargs aargs incl excl is ir ign force good bad = 1.
Proof.
  intros rargs aargs incl excl is ir ign force good bad H. unfold cli_file_datasets, cmp_datasets.
  split; apply any_error_nonzero; destruct H as [H|H]; subst; tauto.
Qed.
Print Assumptions C18_damaged_nonzero_both_roles.

(* a file that still parses but lost a data array (field) or rows/points (domain) fails when no ignore flag is given *)
Theorem C18_lost_content_nonzero : forall rargs aargs incl excl ign force (a b : dataset) n,
  NoDup (names (ds_fields a)) -> NoDup (names (ds_fields b)) ->
  ((In n (names (ds_fields a)) /\ ~ In n (names (ds_fields b))) \/ (~ In n (names (ds_fields a)) /\ In n (names (ds_fields b))) \/
   (dom_id a =? dom_id b) = false) ->
  cli_file_datasets rargs aargs incl excl false false ign force (RData a) (RData b) = 1.
Proof.
  intros rargs aargs incl excl ign force a b n NA NB H. unfold cli_file_datasets, cmp_datasets.
  apply (lost_field_nonzero dataset (fun a b => dom_id a =? dom_id b) ds_fields (field_outcome rargs aargs) incl excl false false
           ign force a b n NA NB eq_refl eq_refl H).
Qed.
Print Assumptions C18_lost_content_nonzero.

(* a sequence that lost a step fails unless missing steps are ignored (C15) *)
Theorem C18_lost_step_nonzero : forall (D : Type) (cmp : D -> D -> tsuite),
  (forall a b, consistent (cmp a b)) ->
  forall force res ref, length res <> length ref ->
  tsuite_bool (fst (compare_seq cmp false force res ref)) = false.
Proof.
  intros D cmp C force res ref HL.
  destruct (seq_verdict D cmp C false force res ref) as [V _].
  destruct (tsuite_bool (fst (compare_seq cmp false force res ref))) eqn:E; [|reflexivity].
  destruct (proj1 V eq_refl) as [_ [X|X]]; congruence.
Qed.
Print Assumptions C18_lost_step_nonzero.

(* codec layer: for EVERY proper prefix of an encoded (uncompressed) data-array payload — raw or base64, both header
   placements, all header types and byte orders — the reader model returns nothing or fewer bytes than declared, never
   the full array: the length assertions of the reader then reject the file *)
Theorem C18_truncated_payload_rejected : forall (compress : bytes -> bytes) bo h e hsep x p,
  wf x -> (lenN x < hbound h)%N ->
  proper_prefix p (enc_array compress bo h None e hsep x) ->
  truncated_ok x (read_uncompressed bo h e p).
Proof. exact truncated_payload_rejected. Qed.
Print Assumptions C18_truncated_payload_rejected.

(* tables: a written table cut ANYWHERE before the end of its data (the final line break carries none) is never read as
   the same names and cells — the reader model returns nothing, other names, fewer rows or a shortened cell; the decision
   layer above (C18_lost_content_nonzero, and the value comparison of C01/C09 for a shortened cell) then fails it *)
Theorem C18_csv_truncated_differs : forall names rows s p,
  names <> [] -> Forall clean names -> Forall (fun r => r <> [] /\ Forall clean r) rows ->
  write_table names rows = s ++ [newline] -> proper_prefix p s ->
  read_table p <> Some (names, rows).
Proof. exact csv_truncated_differs. Qed.
Print Assumptions C18_csv_truncated_differs.

(* ... while the complete data without the final line break is the same table (no false alarm on such files) *)
Theorem C18_csv_complete_without_final_newline : forall names rows,
  names <> [] -> Forall clean names -> Forall (fun r => r <> [] /\ Forall clean r) rows ->
  exists s, write_table names rows = s ++ [newline] /\ read_table s = Some (names, rows).
Proof. exact csv_roundtrip_without_final_newline. Qed.
Print Assumptions C18_csv_complete_without_final_newline.

Example C18_nonvacuous :
  let col n v := (n, n, {| kind := KF64; shape := [2]; data := [SF 1; SF v] |}) in
  let full := {| dom_id := 2; cols := [col 0 (2#1)%Q; col 1 (5#1)%Q] |} in
  let lost := {| dom_id := 2; cols := [col 0 (2#1)%Q] |} in
  cli_file_datasets [] [] (fun _ => true) (fun _ => false) false false false false (RData lost) (RData full) = 1 /\
  cli_file_datasets [] [] (fun _ => true) (fun _ => false) false false false false (RData full) (RData lost) = 1 /\
  cli_file_datasets [] [] (fun _ => true) (fun _ => false) false false false false (RData full) (RData full) = 0.
Proof. vm_compute. repeat split; reflexivity. Qed.
