(* Property C14 — diff output is reference minus source on matching entities. *)
From Coq Require Import QArith Arith Bool List.
From Coq Require Import ZArith.
From FC Require Import Model.Scalar Model.Compare Model.Diff Proofs.CompareP Proofs.DiffP Proofs.DiffIntP.
Import ListNotations.
Local Open Scope nat_scope.

Theorem C14_diff_values : forall n refv srcv i,
  i < min (length refv) (length srcv) ->
  nth i (sub_padded n refv srcv) None = Some (nth i refv 0%Q - nth i srcv 0%Q)%Q.
Proof. exact sub_padded_values. Qed.
Print Assumptions C14_diff_values.

Theorem C14_diff_beyond_common_rows_is_nan : forall n refv srcv i,
  min (length refv) (length srcv) <= i -> i < n -> nth i (sub_padded n refv srcv) (Some 0%Q) = None.
Proof. exact sub_padded_beyond. Qed.
Print Assumptions C14_diff_beyond_common_rows_is_nan.

Theorem C14_diff_domain : forall n refv srcv,
  min (length refv) (length srcv) <= n -> length (sub_padded n refv srcv) = n.
Proof. exact sub_padded_length. Qed.
Print Assumptions C14_diff_domain.

Theorem C14_diff_names_complete : forall sr rr src ref,
  NoDup (map fst src) -> NoDup (map fst ref) ->
  NoDup (map fst (diff_table sr rr src ref)) /\
  forall n, In n (map fst (diff_table sr rr src ref)) <-> In n (map fst src) \/ In n (map fst ref).
Proof. exact diff_table_names. Qed.
Print Assumptions C14_diff_names_complete.

Theorem C14_diff_zero_if_equal : forall v : list Q,
  Forall (fun d => match d with Some x => (x == 0)%Q | None => False end) (sub_padded (length v) v v).
Proof. exact diff_zero_if_equal. Qed.
Print Assumptions C14_diff_zero_if_equal.

(* integer fields (finding F-C14a): computed as repaired — narrow integers widened to 64 bits — the difference of any two
   values of a type of at most 32 bits is exactly reference minus source; in the fields' own type it is not *)
Theorem C14_integer_difference_exact : forall w sgn a b,
  (0 < w <= 32)%Z -> in_int_range w sgn a -> in_int_range w sgn b -> int_diff_fixed a b = (a - b)%Z.
Proof. exact int_diff_fixed_exact_narrow. Qed.
Print Assumptions C14_integer_difference_exact.

Theorem C14_integer_difference_int64 : forall a b,
  (- 2 ^ 63 <= a - b < 2 ^ 63)%Z -> int_diff_fixed a b = (a - b)%Z.
Proof. exact int_diff_fixed_exact_int64. Qed.
Print Assumptions C14_integer_difference_int64.

Theorem C14_integer_difference_pinned_refuted :
  in_int_range 8 false 51 /\ in_int_range 8 false 200 /\ int_diff_pinned 8 false 51 200 = 107%Z /\ int_diff_fixed 51 200 = (-149)%Z /\
  in_int_range 8 true (-128) /\ in_int_range 8 true 5 /\ int_diff_pinned 8 true (-128) 5 = 123%Z /\ int_diff_fixed (-128) 5 = (-133)%Z.
Proof. exact int_diff_pinned_refuted. Qed.
Print Assumptions C14_integer_difference_pinned_refuted.

Example C14_nonvacuous :
  diff_table 2 3 [(0, [1#1; 2#1]); (1, [5#1; 5#1])] [(0, [4#1; 4#1; 4#1]); (2, [0#1; 0#1; 0#1])]
  = [(0, [Some ((4#1) - (1#1))%Q; Some ((4#1) - (2#1))%Q; None]); (2, [None; None; None]); (1, [None; None; None])] /\
  diff_mesh false [] [] = None /\
  diff_mesh true [(0, [1#1])] [(0, [3#1]); (7, [9#1; 9#1])] = Some [(0, [Some ((3#1) - (1#1))%Q]); (7, [None; None])].
Proof. vm_compute. repeat split; reflexivity. Qed.
