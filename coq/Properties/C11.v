(* Property C11 — every field is reported exactly once with the correct status; filtered fields cannot
   affect the verdict; the callback fires once per performed comparison. *)
From Coq Require Import NArith Arith Bool List Permutation.
From FC Require Import Model.Compare Proofs.CompareP Model.Glob Proofs.GlobP Proofs.GlobBracketP.
Import ListNotations.

Theorem C11_matching_partition : forall src ref,
  NoDup (names src) -> NoDup (names ref) ->
  let r := find_matches src ref in
  Permutation src (map fst (matches r) ++ orph_src r) /\
  Permutation (names ref) (map (fun p => fname (fst p)) (matches r) ++ names (orph_ref r)) /\
  (forall p, In p (matches r) -> fname (fst p) = fname (snd p)).
Proof. exact find_matches_partition. Qed.
Print Assumptions C11_matching_partition.

Theorem C11_report_once : forall incl excl out src ref,
  NoDup (names src) -> NoDup (names ref) ->
  let S := compare true incl excl out src ref in
  NoDup (map fst (entries S)) /\
  forall n, In n (map fst (entries S)) <-> In n (names src) \/ In n (names ref).
Proof. exact report_once. Qed.
Print Assumptions C11_report_once.

Theorem C11_status_correct : forall incl excl out src ref,
  NoDup (names src) -> NoDup (names ref) ->
  forall n st,
  In (n, st) (entries (compare true incl excl out src ref)) <->
    (exists f, In f src /\ fname f = n /\ In n (names ref) /\ selected incl excl f = true /\ st = status_of (out n)) \/
    (exists f, In f src /\ fname f = n /\ In n (names ref) /\ selected incl excl f = false /\ st = Filtered) \/
    (In n (names src) /\ ~ In n (names ref) /\ st = MissingReference) \/
    (~ In n (names src) /\ In n (names ref) /\ st = MissingSource).
Proof. exact status_correct. Qed.
Print Assumptions C11_status_correct.

Theorem C11_verdict_iff : forall s,
  suite_bool s = true <-> dom_ok s = true /\ forall e, In e (entries s) -> snd e <> Failed /\ snd e <> Error.
Proof. exact verdict_iff. Qed.
Print Assumptions C11_verdict_iff.

Theorem C11_filtered_irrelevant : forall d incl excl out1 out2 src ref,
  NoDup (names src) -> NoDup (names ref) ->
  (forall f, In f src -> In (fname f) (names ref) -> selected incl excl f = true -> out1 (fname f) = out2 (fname f)) ->
  compare d incl excl out1 src ref = compare d incl excl out2 src ref.
Proof. exact filtered_irrelevant. Qed.
Print Assumptions C11_filtered_irrelevant.

Theorem C11_callback_once : forall incl excl out src ref,
  NoDup (names src) -> NoDup (names ref) ->
  let S := compare true incl excl out src ref in
  NoDup (trace S) /\
  (forall n, In n (trace S) <-> exists f, In f src /\ fname f = n /\ In n (names ref) /\ selected incl excl f = true) /\
  trace S = map fst (filter (fun e => match snd e with Passed | Failed | Error => true | _ => false end) (entries S)).
Proof. exact callback_once. Qed.
Print Assumptions C11_callback_once.

Theorem C11_domain_fail_empty : forall incl excl out src ref,
  compare false incl excl out src ref = {| dom_ok := false; entries := []; trace := [] |} /\
  suite_bool (compare false incl excl out src ref) = false.
Proof. exact domain_fail_empty. Qed.
Print Assumptions C11_domain_fail_empty.

(* the field filters of the command line (Model/Glob.v: PatternFilter over fnmatch): without --include-fields every field is
   selected and without --exclude-fields none is excluded; a pattern without wildcard characters names exactly one field *)
Theorem C11_default_field_filters : forall name, pattern_filter include_all name = true /\ pattern_filter exclude_all name = false.
Proof. intros. split; [apply include_all_accepts|apply exclude_all_rejects]. Qed.
Print Assumptions C11_default_field_filters.

Theorem C11_plain_pattern_names_one_field : forall p name, plain p = true -> (fnmatch name p = true <-> name = p).
Proof. exact plain_pattern_matches_itself_only. Qed.
Print Assumptions C11_plain_pattern_names_one_field.

(* bracket expressions after any plain prefix ("velocity_[xyz]", "p[!0]", "p[0-9]"): exactly the names made of the prefix and one
   listed / not listed / in-range character *)
Theorem C11_bracket_set_selects : forall l x stuff name,
  plain l = true -> x <> c_bang -> x <> c_rb -> ~ In c_rb stuff -> ~ In c_dash (x :: stuff) ->
  (fnmatch name (l ++ c_lb :: (x :: stuff) ++ [c_rb]) = true <-> exists y, name = l ++ [y] /\ In y (x :: stuff)).
Proof. exact bracket_set_selects. Qed.
Print Assumptions C11_bracket_set_selects.

Theorem C11_bracket_negated_set_selects : forall l y stuff name,
  plain l = true -> y <> c_rb -> ~ In c_rb stuff -> ~ In c_dash (y :: stuff) ->
  (fnmatch name (l ++ c_lb :: (c_bang :: y :: stuff) ++ [c_rb]) = true <-> exists z, name = l ++ [z] /\ ~ In z (y :: stuff)).
Proof. exact bracket_negated_set_selects. Qed.
Print Assumptions C11_bracket_negated_set_selects.

Theorem C11_bracket_range_selects : forall l a c name,
  plain l = true -> a <> c_bang -> a <> c_rb -> c <> c_rb -> (a <= c)%N ->
  (fnmatch name (l ++ c_lb :: [a; c_dash; c] ++ [c_rb]) = true <-> exists y, name = l ++ [y] /\ (a <= y <= c)%N).
Proof. exact bracket_range_selects. Qed.
Print Assumptions C11_bracket_range_selects.

(* "p[0-9]" against "p7", "p", "pa", "p77"; "u_[xyz]" against "u_y", "u_w"; "[!u]" against "p", "u" *)
Example C11_bracket_nonvacuous :
  let p := 112%N in let u := 117%N in
  fnmatch [p; 55%N] [p; c_lb; 48%N; c_dash; 57%N; c_rb] = true /\ fnmatch [p] [p; c_lb; 48%N; c_dash; 57%N; c_rb] = false /\
  fnmatch [p; 97%N] [p; c_lb; 48%N; c_dash; 57%N; c_rb] = false /\ fnmatch [p; 55%N; 55%N] [p; c_lb; 48%N; c_dash; 57%N; c_rb] = false /\
  fnmatch [u; 95%N; 121%N] [u; 95%N; c_lb; 120%N; 121%N; 122%N; c_rb] = true /\
  fnmatch [u; 95%N; 119%N] [u; 95%N; c_lb; 120%N; 121%N; 122%N; c_rb] = false /\
  fnmatch [p] [c_lb; c_bang; u; c_rb] = true /\ fnmatch [u] [c_lb; c_bang; u; c_rb] = false.
Proof. exact bracket_examples. Qed.

Example C11_nonvacuous :
  let f n b := {| fname := n; fbase := b |} in
  let src := [f 0 0; f 1 1; f 2 2; f 3 1] in   (* names 1 and 3 share the base name 1 (point / cell field) *)
  let ref := [f 3 1; f 4 4; f 0 0; f 1 1] in
  let S := compare true (fun b => negb (b =? 0)) (fun _ => false) (fun n => if n =? 3 then OFail else OPass) src ref in
  NoDup (names src) /\ NoDup (names ref) /\
  entries S = [(1, Passed); (3, Failed); (4, MissingSource); (2, MissingReference); (0, Filtered)] /\
  trace S = [1; 3] /\ suite_bool S = false.
Proof. repeat split; try reflexivity; repeat constructor; simpl; intuition discriminate. Qed.
