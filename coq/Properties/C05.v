(* Property C05 — VTK reading is independent of the file's encoding.
   Model: Model/Codec.v (the byte-level container below the XML layer: base64 as decoded by CPython, headers,
   compression blocks, byte order, appended offsets; format side `vtk_encode` written from the VTK file format).
   The compressor is abstract: `compress` / `decompress` with decompress (compress b) = Some b on blocks.
   `empty_ok` distinguishes the code as it is (false: np.concatenate([]) raises for a compressed array with zero
   blocks, finding F-C05a) from the repaired behaviour (true). *)
From Coq Require Import NArith ZArith List Bool.
From FC Require Import Model.Codec Proofs.CodecP.
Import ListNotations.
Local Open Scope N_scope.

(* ---- base64 as implemented by CPython's lenient decoder --------------------------------------------------- *)
Theorem C05_b64_roundtrip : forall x, wf x -> b64dec (b64enc x) = Some x.
Proof. exact b64_roundtrip. Qed.
Print Assumptions C05_b64_roundtrip.

(* decoding an encoded string that is followed by further data: stops after a padded string, continues after an
   unpadded one -- what makes reading at an appended offset and separately encoded headers work *)
Theorem C05_b64_concat_prefix : forall x rest, wf x ->
  b64dec (b64enc x ++ rest) = if (lenN x mod 3 =? 0) then option_map (app x) (b64dec rest) else Some x.
Proof. intros x rest H. apply b64dec_enc_app. exact H. Qed.
Print Assumptions C05_b64_concat_prefix.

Theorem C05_b64enc_length : forall x, lenN (b64enc x) = 4 * ((lenN x + 2) / 3).
Proof. exact b64enc_length. Qed.
Print Assumptions C05_b64enc_length.

(* Base64Encoder.encoded_bytes (-(-n // 3) * 4) is the length of the encoding *)
Theorem C05_encoded_bytes_spec : forall e x, lenN (encode e x) = encoded_bytes e (lenN x).
Proof. exact encoded_bytes_is_length. Qed.
Print Assumptions C05_encoded_bytes_spec.

(* ---- integers, both byte orders, all widths, two's complement ----------------------------------------------- *)
Theorem C05_int_bytes_roundtrip : forall bo w n, n < 256 ^ N.of_nat w -> bytes_to_int bo (int_to_bytes bo w n) = n.
Proof. exact int_bytes_roundtrip. Qed.
Print Assumptions C05_int_bytes_roundtrip.

Theorem C05_signed_roundtrip : forall w z, (0 < w)%nat ->
  (- (256 ^ Z.of_nat w / 2) <= z < 256 ^ Z.of_nat w / 2)%Z -> to_signed w (to_unsigned w z) = z.
Proof. exact signed_roundtrip. Qed.
Print Assumptions C05_signed_roundtrip.

(* ---- uncompressed arrays: both header placements, raw or base64, any payload length incl. 0, any data
        following the array in the appended section -------------------------------------------------------- *)
Theorem C05_read_uncompressed_correct : forall compress bo h e hsep x rest,
  wf x -> lenN x < hbound h -> (e = B64 -> b64_ok rest) ->
  read_uncompressed bo h e (enc_array compress bo h None e hsep x ++ rest) = Some x.
Proof. exact read_uncompressed_correct. Qed.
Print Assumptions C05_read_uncompressed_correct.

(* ---- compressed arrays: any block size >= 1, any number of blocks, last partial block ------------------------ *)
Theorem C05_read_compressed_correct : forall compress decompress empty_ok bo h e hsep bs x rest,
  wf x -> 0 < bs -> bs < hbound h ->
  (forall b, wf b -> wf (compress b)) ->
  (forall b, wf b -> lenN b <= bs -> decompress bs (compress b) = Some b) ->
  lenN (chunks bs x) < hbound h ->
  lenN (concat (map compress (chunks bs x))) < hbound h ->
  (x <> [] \/ empty_ok = true) ->
  read_compressed decompress empty_ok bo h e (enc_array compress bo h (Some bs) e hsep x ++ rest) = Some x.
Proof. exact read_compressed_correct. Qed.
Print Assumptions C05_read_compressed_correct.

(* the blocks written by the format side: all full blocks have bs bytes, the last one |x| mod bs (or bs) *)
Theorem C05_block_structure : forall bs x, 0 < bs -> x <> [] ->
  exists full lastb, chunks bs x = full ++ [lastb] /\ Forall (fun b => lenN b = bs) full /\
    lenN lastb = (if lenN x mod bs =? 0 then bs else lenN x mod bs) /\ lenN full = (lenN x - 1) / bs.
Proof. intros bs x Hbs Hx. unfold chunks. apply chunks_fuel_shape; [exact Hbs|apply Nat.le_refl|exact Hx]. Qed.
Print Assumptions C05_block_structure.

(* ---- appended data ---------------------------------------------------------------------------------------------- *)
Theorem C05_read_appended_at_offset : forall trailer segs i s,
  nth_error segs i = Some s ->
  exists off, nth_error (offsets_from 0 segs) i = Some off /\
              dropN off (concat segs ++ trailer) = s ++ concat (skipn (S i) segs) ++ trailer.
Proof. intros trailer segs i s H. apply (read_appended_at_offset trailer segs 0 i s [] H eq_refl). Qed.
Print Assumptions C05_read_appended_at_offset.

(* ---- the whole matrix: every array of every file written by a format-conforming writer in any configuration
        (inline base64 / appended base64 / appended raw  x  uncompressed / compressed with any block size
         x  UInt32 / UInt64 headers  x  little / big endian  x  header placement) decodes to its payload ---------- *)
Theorem C05_read_array_correct : forall compress decompress empty_ok,
  (forall b, wf b -> wf (compress b)) ->
  forall c arrays trailer i x,
  Forall (array_ok compress decompress empty_ok c) arrays ->
  (c_fmt c = FAppB64 -> b64_ok trailer) ->
  nth_error arrays i = Some x ->
  read_file_array decompress empty_ok c (vtk_encode compress c arrays trailer) i = Some x.
Proof. exact read_array_correct. Qed.
Print Assumptions C05_read_array_correct.

(* the statement without the guard `x <> [] \/ empty_ok = true` of array_ok is what C05 asks for; at the pinned
   commit (empty_ok = false) it is refuted by an empty array in a compressed file: *)
Definition C05_full_statement_compressed (empty_ok : bool) : Prop :=
  forall compress decompress bo h e hsep bs x rest,
  wf x -> 0 < bs -> bs < hbound h ->
  (forall b, wf b -> wf (compress b)) ->
  (forall b, wf b -> lenN b <= bs -> decompress bs (compress b) = Some b) ->
  lenN (chunks bs x) < hbound h ->
  lenN (concat (map compress (chunks bs x))) < hbound h ->
  read_compressed decompress empty_ok bo h e (enc_array compress bo h (Some bs) e hsep x ++ rest) = Some x.

Theorem C05_full_statement_after_repair : C05_full_statement_compressed true.
Proof.
  unfold C05_full_statement_compressed. intros. apply read_compressed_correct; auto.
Qed.
Print Assumptions C05_full_statement_after_repair.

Theorem C05_F_C05a_refuted : ~ C05_full_statement_compressed false.
Proof.
  intros H.
  specialize (H (fun b => b) (fun _ b => Some b) LE H32 B64 false 7 [] []).
  assert (E : read_compressed (fun _ b => Some b) false LE H32 B64 (enc_array (fun b => b) LE H32 (Some 7) B64 false [] ++ [])
              = None) by (vm_compute; reflexivity).
  rewrite E in H. assert (C : @None bytes = Some []); [|discriminate C].
  apply H; try (vm_compute; reflexivity); try constructor; auto.
Qed.
Print Assumptions C05_F_C05a_refuted.

(* ---- codec layer of C18: for every proper prefix of the stored byte string of an uncompressed array (raw or base64,
        both header placements) the reader fails or returns fewer bytes than declared -- never the full array -------- *)
Theorem C05_truncated_payload_rejected : forall compress bo h e hsep x p,
  wf x -> lenN x < hbound h -> proper_prefix p (enc_array compress bo h None e hsep x) ->
  truncated_ok x (read_uncompressed bo h e p).
Proof. exact truncated_payload_rejected. Qed.
Print Assumptions C05_truncated_payload_rejected.

(* the same for compressed arrays (any block size, raw or base64), for a decompressor that rejects incomplete blocks
   (zlib / lzma report an incomplete stream; an assumption about the library, exercised by C18's cut enumeration):
   every proper prefix makes the reader fail or return no data at all *)
Theorem C05_truncated_compressed_rejected : forall compress decompress empty_ok bs,
  (forall b q, wf b -> proper_prefix q (compress b) -> decompress bs q = None) ->
  decompress bs [] = None ->
  forall bo h e hsep x p,
  wf x -> 0 < bs -> bs < hbound h ->
  (forall b, wf b -> wf (compress b)) ->
  lenN (chunks bs x) < hbound h ->
  lenN (concat (map compress (chunks bs x))) < hbound h ->
  proper_prefix p (enc_array compress bo h (Some bs) e hsep x) ->
  rejected (read_compressed decompress empty_ok bo h e p).
Proof. exact truncated_compressed_rejected. Qed.
Print Assumptions C05_truncated_compressed_rejected.

(* concrete, non-trivial instance: three arrays (lengths 5, 0, 9; block size 4 => 2 and 3 blocks, partial last
   block), big endian, UInt64 headers, appended base64; identity "compressor" *)
(* cells of a .vtu regrouped per cell type (np.unique order), every cell with the corners between its own two offsets: for
   EVERY cell list — cells of different types interleaved in the file, polygons with differing corner counts included *)
Theorem C05_vtu_regroup_correct : forall cl : list (N * list N),
  regroup_cells (file_connectivity cl) (file_offsets cl) (file_types cl)
  = map (fun t => (t, cells_with_type t cl)) (unique_sorted (file_types cl)).
Proof. exact vtu_regroup_correct. Qed.
Print Assumptions C05_vtu_regroup_correct.

Example C05_ragged_polygons :
  let cl := [(7, [0; 1; 5; 4]); (5, [9; 9; 9]); (7, [1; 2; 5]); (7, [2; 3; 7; 8; 6])] in
  regroup_cells (file_connectivity cl) (file_offsets cl) (file_types cl)
  = [(5, [[9; 9; 9]]); (7, [[0; 1; 5; 4]; [1; 2; 5]; [2; 3; 7; 8; 6]])].
Proof. vm_compute. reflexivity. Qed.

Example C05_nonvacuous :
  let c := {| c_fmt := FAppB64; c_comp := Some 4; c_bo := BE; c_h := H64; c_hsep := false |} in
  let arrays := [[1; 2; 3; 254; 255]; [60; 62; 38; 95; 34; 10; 32; 0; 7]; [9]] in
  let file := vtk_encode (fun b => b) c arrays [] in
  map (read_file_array (fun _ b => Some b) false c file) [0; 1; 2]%nat = map Some arrays /\
  (let cu := {| c_fmt := FAppRaw; c_comp := None; c_bo := LE; c_h := H32; c_hsep := false |} in
   map (read_file_array (fun _ b => Some b) false cu (vtk_encode (fun b => b) cu ([] :: arrays) [10; 32])) [0; 1; 2; 3]%nat
   = map Some ([] :: arrays)).
Proof. vm_compute. split; reflexivity. Qed.
