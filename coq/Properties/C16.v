(* Property C16 — mesh equality is sound, total and independent of the representation (explicit part). *)
From Coq Require Import QArith Qabs Qminmax Arith Bool List Permutation.
From FC Require Import Model.Scalar Model.Mesh Model.Structured Model.ImageEq Proofs.ScalarP Proofs.MeshP Proofs.CornerP Findings.F_C16c.
Import ListNotations.
Local Open Scope nat_scope.

Theorem C16_mesh_equal_sound : forall rel abs A B,
  NoDup (cell_types B) ->
  mesh_equal rel abs A B = true ->
  length (pts A) = length (pts B) /\
  (forall i, i < length (pts A) ->
     length (nth i (pts A) []) = length (nth i (pts B) []) /\
     forall d, d < length (nth i (pts A) []) -> formula (nth d (nth i (pts A) []) 0%Q) (nth d (nth i (pts B) []) 0%Q) rel abs) /\
  exists pairs,
    map fst pairs = cell_types A /\ Permutation (map snd pairs) (cell_types B) /\
    forall st, In st pairs ->
      compat (fst st) (snd st) = true /\
      length (rows_of (fst st) (cells A)) = length (rows_of (snd st) (cells B)) /\
      forall j, j < length (rows_of (fst st) (cells A)) ->
        Permutation (nth j (rows_of (fst st) (cells A)) []) (nth j (rows_of (snd st) (cells B)) []).
Proof. exact mesh_equal_sound. Qed.
Print Assumptions C16_mesh_equal_sound.

(* never an exception: the model function is total (bool), and the only partial step of the code — finding the partner
   of a cell type — is reached only after the one-to-one pairing succeeded *)
Theorem C16_pairing_total : forall S T pairs st,
  match_types S T = Some pairs -> In st pairs -> In (snd st) T /\ compat (fst st) (snd st) = true.
Proof.
  intros S T pairs st H Hst. unfold match_types in H. destruct (length S =? length T); [|discriminate].
  destruct (match_types_aux_spec S T [] pairs H) as [_ [_ I]]. destruct (I st Hst) as [A [_ C]]. tauto.
Qed.
Print Assumptions C16_pairing_total.

(* the answer is the same when source and reference are swapped (same tolerances on both sides: Mesh.equals uses the minimum
   of both meshes' tolerances, which is symmetric) *)
Theorem C16_mesh_equal_sym : forall rel abs A B,
  NoDup (cell_types A) -> NoDup (cell_types B) -> mesh_equal rel abs A B = mesh_equal rel abs B A.
Proof. exact mesh_equal_sym. Qed.
Print Assumptions C16_mesh_equal_sym.

(* compatibility relates only pixel~quad and voxel~hexahedron, symmetrically *)
Theorem C16_compat_table : forall a b,
  compat a b = true <-> a = b \/ (a = 8 /\ b = 9) \/ (a = 9 /\ b = 8) \/ (a = 11 /\ b = 12) \/ (a = 12 /\ b = 11).
Proof.
  intros a b. unfold compat. rewrite !orb_true_iff, !andb_true_iff, !Nat.eqb_eq. tauto.
Qed.
Print Assumptions C16_compat_table.

Theorem C16_points_close_refl : forall rel abs P, (0 <= abs)%Q -> points_close rel abs P P = true.
Proof. exact points_close_refl. Qed.
Print Assumptions C16_points_close_refl.

(* image meshes: agreeing parameters always give 'equal' (second clause of the statement) ... *)
Theorem C16_image_equals_complete : forall rel abs A,
  (0 <= abs)%Q -> image_equals rel abs A A = true.
Proof.
  intros rel abs A H. unfold image_equals.
  assert (V : forall v, vec_close rel abs v v = true).
  { induction v as [|x v IH]; simpl; [reflexivity|]. rewrite fuzzy_q_refl by exact H. exact IH. }
  assert (N : forall l, nat_list_eqb l l = true).
  { induction l as [|x l IH]; simpl; [reflexivity|]. rewrite Nat.eqb_refl. exact IH. }
  rewrite N, !V. reflexivity.
Qed.
Print Assumptions C16_image_equals_complete.

(* ... but the first clause ("never 'equal' where the explicit representation is 'unequal'") is REFUTED for the faithful
   model of ImageMesh.equals: open finding F-C16c (Findings/F_C16c.v) *)
Theorem C16_image_equals_sound_refuted : ~ C16_image_sound_statement.
Proof. exact F_C16c_refuted. Qed.
Print Assumptions C16_image_equals_sound_refuted.

Example C16_nonvacuous :
  let A := {| pts := [[0#1]; [1#1]]; cells := [(8, [[0;1;1;0]]); (9, [[0;1;1;0]])] |} in
  let B := {| pts := [[0#1]; [1#1]]; cells := [(9, [[0;1;1;0]]); (12, [[0;1]])] |} in
  (* pixel and quad of A would both pair with B's quad: rejected, so B's extra block cannot be ignored *)
  mesh_equal 0%Q 0%Q A B = false /\ mesh_equal 0%Q 0%Q B A = false /\ mesh_equal 0%Q 0%Q A A = true.
Proof. vm_compute. repeat split; reflexivity. Qed.

(* ---- what the explicit comparison does NOT look at: the order of the cell blocks and of a cell's corners --------- *)
(* (Mesh keeps one corner array per cell type, fieldcompare/mesh/_mesh.py: the distinct-types hypothesis is met by every
   mesh of the implementation; without it the model's mesh is not even equal to itself, last example) *)
Theorem C16_block_order_irrelevant : forall rel abs A B,
  (0 <= abs)%Q -> NoDup (cell_types A) -> pts A = pts B -> Permutation (cells A) (cells B) ->
  mesh_equal rel abs A B = true.
Proof. exact block_order_irrelevant. Qed.
Print Assumptions C16_block_order_irrelevant.

Theorem C16_mesh_equal_refl : forall rel abs M,
  (0 <= abs)%Q -> NoDup (cell_types M) -> mesh_equal rel abs M M = true.
Proof. exact mesh_equal_refl. Qed.
Print Assumptions C16_mesh_equal_refl.

Theorem C16_corner_order_irrelevant : forall rel abs (f : list nat -> list nat) M,
  (0 <= abs)%Q -> NoDup (cell_types M) -> (forall r, Permutation r (f r)) ->
  mesh_equal rel abs M (map_corners f M) = true.
Proof. exact corner_order_irrelevant. Qed.
Print Assumptions C16_corner_order_irrelevant.

(* completeness over the same cell types (the converse of C16_mesh_equal_sound where no pixel/quad or voxel/hexahedron exchange
   is involved): points pairwise within tolerance and, type by type, rows with the same corners are enough for "equal" *)
Theorem C16_mesh_equal_complete : forall rel abs A B,
  NoDup (cell_types A) -> Permutation (cell_types A) (cell_types B) ->
  points_close rel abs (pts A) (pts B) = true ->
  (forall t, In t (cell_types A) -> rows_equal (rows_of t (cells A)) (rows_of t (cells B)) = true) ->
  mesh_equal rel abs A B = true.
Proof. exact mesh_equal_complete. Qed.
Print Assumptions C16_mesh_equal_complete.

Example C16_block_order_nonvacuous :
  let A := {| pts := [[0#1; 0#1]; [1#1; 0#1]; [1#1; 1#1]; [0#1; 1#1]]%Q; cells := [(5, [[0; 1; 2]; [0; 2; 3]]); (3, [[0; 1]])] |} in
  let B := {| pts := pts A; cells := [(3, [[0; 1]]); (5, [[0; 1; 2]; [0; 2; 3]])] |} in
  (A <> B /\ Permutation (cells A) (cells B) /\ mesh_equal (1#1000) (0#1) A B = true) /\
  mesh_equal (1#1000) (0#1) {| pts := [[0#1]; [1#1]]%Q; cells := [(3, [[0; 1]]); (3, [[1; 0]])] |}
                            {| pts := [[0#1]; [1#1]]%Q; cells := [(3, [[0; 1]]); (3, [[1; 0]])] |} = false.
Proof. split; [exact block_order_example|exact mesh_equal_refl_needs_distinct_types]. Qed.
