(* Property C09 — integer and string data are compared exactly, whatever tolerances are set. *)
From Coq Require Import String.
From Coq Require Import QArith ZArith List.
From FC Require Import Model.Scalar Model.Predicates Proofs.ScalarP Proofs.PredicatesP.
Import ListNotations.
Local Open Scope Q_scope.

Theorem C09_default_int_str_exact : forall rel abs a b,
  is_float_kind (kind a) = false -> is_float_kind (kind b) = false ->
  default_eq rel abs a b = exact_eq a b.
Proof. exact default_int_str_exact. Qed.
Print Assumptions C09_default_int_str_exact.

Theorem C09_exact_eq_iff : forall a b,
  wf_arr a = true -> wf_arr b = true ->
  (exact_eq a b = Ok true <->
   compatible (shape a) (shape b) = true /\
   forall j, (j < length (data a))%nat ->
     scalar_eqb (nth j (data a) (SI 0)) (nth j (data b) (SI 0)) = true).
Proof. exact exact_eq_iff. Qed.
Print Assumptions C09_exact_eq_iff.

(* entries are identical: Leibniz equality of integers / strings; an integer never equals a string *)
Theorem C09_entry_identity : forall (x y : Z) (s u : string),
  (scalar_eqb (SI x) (SI y) = true <-> x = y) /\
  (scalar_eqb (SS s) (SS u) = true <-> s = u) /\
  scalar_eqb (SI x) (SS s) = false /\ scalar_eqb (SS s) (SI x) = false.
Proof.
  intros x y s u. exact (conj (scalar_eqb_int x y) (conj (scalar_eqb_str s u) (scalar_eqb_int_str x s))).
Qed.
Print Assumptions C09_entry_identity.

(* no tolerance, however large, equates two different integers/strings *)
Theorem C09_tolerance_cannot_equate_ints : forall rel abs a b j,
  wf_arr a = true -> wf_arr b = true ->
  is_float_kind (kind a) = false -> is_float_kind (kind b) = false ->
  (j < length (data a))%nat ->
  scalar_eqb (nth j (data a) (SI 0)) (nth j (data b) (SI 0)) = false ->
  default_eq rel abs a b = Ok false.
Proof. exact tolerance_cannot_equate_ints. Qed.
Print Assumptions C09_tolerance_cannot_equate_ints.

Theorem C09_default_float_is_fuzzy : forall rel abs a b,
  is_float_kind (kind a) = true \/ is_float_kind (kind b) = true ->
  default_eq rel abs a b = fuzzy_eq rel abs a b.
Proof. exact default_float_is_fuzzy. Qed.
Print Assumptions C09_default_float_is_fuzzy.

(* exact comparison of floats accepts only identical values *)
Theorem C09_exact_float_identical : forall x y : Q,
  scalar_eqb (SF x) (SF y) = true <-> x == y.
Proof. exact scalar_eqb_float. Qed.
Print Assumptions C09_exact_float_identical.

Example C09_nonvacuous :
  let a := {| kind := KInt 64 true; shape := [3]%nat; data := [SI 1; SI 2; SI 3] |} in
  let b := {| kind := KInt 8 false; shape := [3;1]%nat; data := [SI 1; SI 2; SI 4] |} in
  wf_arr a = true /\ wf_arr b = true /\
  default_eq (TNum (10000#1)) (TNum (10000#1)) a b = Ok false /\ default_eq (TNum 0) (TNum 0) a a = Ok true.
Proof. vm_compute. repeat split; reflexivity. Qed.
