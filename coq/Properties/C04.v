(* Property C04 — CLI file-mode exit code equals the documented comparison semantics. *)
From Coq Require Import QArith Arith Bool List.
From FC Require Import Model.Scalar Model.Predicates Model.Compare Model.Cli Model.CliFile
                       Model.ReadAs Proofs.CompareP Proofs.PredicatesP Proofs.CliP Proofs.ReadAsP.
Import ListNotations.
Local Open Scope nat_scope.

(* exit 0 iff both files are readable field data, domains equal, every selected common field passes the default
   predicate with the tolerances that apply to it, and one-sided fields occur only where the ignore flag is given *)
Theorem C04_cli_exit_iff : forall rargs aargs incl excl is ir ign force (a b : dataset),
  NoDup (names (ds_fields a)) -> NoDup (names (ds_fields b)) ->
  (cli_file_datasets rargs aargs incl excl is ir ign force (RData a) (RData b) = 0 <->
     (dom_id a =? dom_id b) = true /\
     (forall f, In f (ds_fields a) -> In (fname f) (names (ds_fields b)) -> selected incl excl f = true ->
        field_outcome rargs aargs a b (fname f) = OPass) /\
     (forall n, In n (names (ds_fields a)) -> ~ In n (names (ds_fields b)) -> ir = true) /\
     (forall n, ~ In n (names (ds_fields a)) -> In n (names (ds_fields b)) -> is = true)).
Proof.
  intros. unfold cli_file_datasets, cmp_datasets.
  pose proof (cli_exit_iff_data dataset (fun a b => dom_id a =? dom_id b) ds_fields (field_outcome rargs aargs)
                incl excl is ir ign force (RData a) (RData b) a b eq_refl eq_refl) as X.
  cbv beta in X. apply X; assumption.
Qed.
Print Assumptions C04_cli_exit_iff.

(* a selected common field passes iff DefaultEquality with ITS tolerances (per-field, else global, else default) holds *)
Theorem C04_field_outcome_is_default_eq : forall rargs aargs a b n x y,
  col_of n (cols a) = Some x -> col_of n (cols b) = Some y ->
  (field_outcome rargs aargs a b n = OPass <->
   default_eq (rel_for rargs (base_of n (cols a))) (abs_for aargs (base_of n (cols a))) x y = Ok true).
Proof.
  intros rargs aargs a b n x y Hx Hy. unfold field_outcome. rewrite Hx, Hy.
  destruct (default_eq _ _ x y) as [[|]|]; split; intro H; congruence.
Qed.
Print Assumptions C04_field_outcome_is_default_eq.

Theorem C04_tol_lookup : forall (args : tolargs) n v,
  tol_lookup (args ++ [(Some n, v)]) n = Some v /\
  (last_field args n None = None -> tol_lookup (args ++ [(None, v)]) n = Some v) /\
  (last_field args n None = Some v -> tol_lookup args n = Some v) /\
  @tol_lookup tolspec [] n = None.
Proof.
  intros. repeat split;
    [apply tol_lookup_field_last | apply tol_lookup_global_last | apply field_overrides_global].
Qed.
Print Assumptions C04_tol_lookup.

Theorem C04_tolerance_no_leak : forall (args1 args2 : tolargs) m n v,
  m <> n -> tol_lookup (args1 ++ (Some m, v) :: args2) n = tol_lookup (args1 ++ args2) n.
Proof. intros. apply tolerance_no_leak. assumption. Qed.
Print Assumptions C04_tolerance_no_leak.

(* global tolerances keep integers/strings exact (composition with C09) *)
Theorem C04_global_tol_keeps_ints_exact : forall rargs aargs a b n x y,
  col_of n (cols a) = Some x -> col_of n (cols b) = Some y ->
  is_float_kind (kind x) = false -> is_float_kind (kind y) = false ->
  (field_outcome rargs aargs a b n = OPass <-> exact_eq x y = Ok true).
Proof.
  intros rargs aargs a b n x y Hx Hy Kx Ky. unfold field_outcome. rewrite Hx, Hy.
  rewrite default_int_str_exact by assumption.
  destruct (exact_eq x y) as [[|]|]; split; intro H; congruence.
Qed.
Print Assumptions C04_global_tol_keeps_ints_exact.

Theorem C04_any_error_nonzero : forall rargs aargs incl excl is ir ign force (r s : readres dataset),
  (r = RIOErr \/ r = ROther \/ s = RIOErr \/ s = ROther \/
   (exists a l, r = RData a /\ s = RSeq l) \/ (exists a l, r = RSeq l /\ s = RData a)) ->
  cli_file_datasets rargs aargs incl excl is ir ign force r s = 1.
Proof. intros. unfold cli_file_datasets, cmp_datasets. apply any_error_nonzero. assumption. Qed.
Print Assumptions C04_any_error_nonzero.

(* a predicate error on a selected common field yields a non-zero exit code *)
Theorem C04_predicate_error_nonzero : forall rargs aargs incl excl is ir ign force (a b : dataset) f,
  NoDup (names (ds_fields a)) -> NoDup (names (ds_fields b)) ->
  In f (ds_fields a) -> In (fname f) (names (ds_fields b)) -> selected incl excl f = true ->
  field_outcome rargs aargs a b (fname f) <> OPass ->
  cli_file_datasets rargs aargs incl excl is ir ign force (RData a) (RData b) <> 0.
Proof.
  intros rargs aargs incl excl is ir ign force a b f NA NB Hf Hin Sel Hne E.
  apply C04_cli_exit_iff in E; try assumption. destruct E as [_ [E _]]. apply Hne. apply E; assumption.
Qed.
Print Assumptions C04_predicate_error_nonzero.

(* --read-as: the reader selected for a file has one of ITS patterns matching the file name; none is selected (default,
   extension-based reading) exactly when no pattern matches *)
Theorem C04_read_as_selection : forall maps matches,
  (forall r, select_reader maps matches = Some r -> exists p, In (r, p) maps /\ matches p = true) /\
  (select_reader maps matches = None <-> forall r p, In (r, p) maps -> matches p = false).
Proof. intros. split; [intros r; apply select_reader_matches | apply select_reader_none]. Qed.
Print Assumptions C04_read_as_selection.

Example C04_nonvacuous :
  let col n v := (n, n, {| kind := KF64; shape := [2]; data := [SF 1; SF v] |}) in
  let a := {| dom_id := 2; cols := [col 0 (2#1)%Q; col 1 (5#1)%Q] |} in
  let b := {| dom_id := 2; cols := [col 0 (2#1)%Q; col 1 (6#1)%Q; col 2 (1#1)%Q] |} in
  (* field 1 differs by 1: passes only under its own per-field absolute tolerance; field 2 is missing in the source *)
  cli_file_datasets [] [(Some 1, TNum 1%Q)] (fun _ => true) (fun _ => false) true false false false (RData a) (RData b) = 0 /\
  cli_file_datasets [] [(Some 0, TNum 1%Q)] (fun _ => true) (fun _ => false) true false false false (RData a) (RData b) = 1 /\
  cli_file_datasets [] [(Some 1, TNum 1%Q)] (fun _ => true) (fun _ => false) false false false false (RData a) (RData b) = 1.
Proof. vm_compute. repeat split; reflexivity. Qed.
