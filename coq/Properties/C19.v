(* Property C19 — comparing is free of side effects and repeatable (partial: proved for the transcribed write sites;
   that no OTHER numpy call writes into its inputs and that nothing else is written to disk is observed by byte snapshots
   in the check, not proved). *)
From Coq Require Import ZArith Arith Bool List.
From FC Require Import Model.Heap Proofs.HeapP.
Import ListNotations.

Theorem C19_safe_programs_do_not_modify_inputs : forall prog e s,
  safe prog = true -> forall l, l < length s -> nth l (snd (run prog (e, s))) [] = nth l s [].
Proof. exact safe_sound. Qed.
Print Assumptions C19_safe_programs_do_not_modify_inputs.

(* every transcribed write site of the library writes only into arrays it allocated itself *)
Theorem C19_write_sites_safe :
  safe prog_sorted_corners = true /\ safe prog_merge_connectivity = true /\ safe prog_fuzzy_equal = true /\
  safe prog_fuzzy_lex_sort = true /\ safe prog_subtract_fill = true /\ safe prog_extend = true /\
  safe prog_to_meshio_fixed = true.
Proof. vm_compute. repeat split; reflexivity. Qed.
Print Assumptions C19_write_sites_safe.

Theorem C19_frame_write_sites : forall prog e s,
  In prog [prog_sorted_corners; prog_merge_connectivity; prog_fuzzy_equal; prog_fuzzy_lex_sort; prog_subtract_fill;
           prog_extend; prog_to_meshio_fixed] ->
  forall l, l < length s -> nth l (snd (run prog (e, s))) [] = nth l s [].
Proof.
  intros prog e s H. apply safe_sound.
  simpl in H. repeat (destruct H as [H|H]; [subst; vm_compute; reflexivity|]). contradiction.
Qed.
Print Assumptions C19_frame_write_sites.

(* the pixel/voxel reordering of to_meshio as found at the pinned commit writes through an alias of the caller's array *)
Theorem C19_to_meshio_pinned_refuted :
  safe prog_to_meshio_pinned = false /\
  exists e s l, l < length s /\ nth l (snd (run prog_to_meshio_pinned (e, s))) [] <> nth l s [].
Proof.
  split; [reflexivity|]. exists [0], [[0; 1; 2; 3]%Z], 0. split; [simpl; auto|]. vm_compute. discriminate.
Qed.
Print Assumptions C19_to_meshio_pinned_refuted.

Example C19_nonvacuous :
  snd (run prog_sorted_corners ([0; 1], [[3; 1; 2]%Z; [9]%Z])) = [[3; 1; 2]%Z; [9]%Z; [0; 0; 2]%Z] /\
  snd (run prog_to_meshio_pinned ([0], [[0; 1; 2; 3]%Z])) = [[7; 1; 2; 3]%Z; [0; 1; 2; 3]%Z].
Proof. vm_compute. split; reflexivity. Qed.
