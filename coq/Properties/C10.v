(* Property C10 — predicates are reflexive, symmetric and monotone in the tolerances;
   value of the scaled tolerance. *)
From Coq Require Import QArith Qabs List.
From FC Require Import Model.Scalar Model.Predicates Proofs.ScalarP Proofs.PredicatesP.
Import ListNotations.
Local Open Scope Q_scope.

Theorem C10_fuzzy_refl : forall rel abs a d r t,
  to_qs (data a) = Some d ->
  resolve rel (kind a) (kind a) (fst (reconcile (shape a) (shape a))) d d = Some r ->
  resolve abs (kind a) (kind a) (fst (reconcile (shape a) (shape a))) d d = Some t ->
  rtol_nonneg t ->
  fuzzy_eq rel abs a a = Ok true.
Proof. exact fuzzy_refl. Qed.
Print Assumptions C10_fuzzy_refl.

Theorem C10_exact_refl : forall a, exact_eq a a = Ok true.
Proof. exact exact_refl. Qed.
Print Assumptions C10_exact_refl.

(* symmetric for every tolerance kind, including the data-dependent ones; no hypotheses *)
Theorem C10_fuzzy_sym : forall rel abs a b, fuzzy_eq rel abs a b = fuzzy_eq rel abs b a.
Proof. exact fuzzy_sym. Qed.
Print Assumptions C10_fuzzy_sym.

Theorem C10_exact_sym : forall a b, exact_eq a b = exact_eq b a.
Proof. exact exact_sym. Qed.
Print Assumptions C10_exact_sym.

Theorem C10_default_sym : forall rel abs a b, default_eq rel abs a b = default_eq rel abs b a.
Proof.
  intros rel abs a b. unfold default_eq. rewrite (Bool.orb_comm (has_floats b)).
  rewrite fuzzy_sym, exact_sym. reflexivity.
Qed.
Print Assumptions C10_default_sym.

Theorem C10_fuzzy_mono : forall rel1 rel2 abs1 abs2 a b d1 d2 r1 r2 t1 t2,
  to_qs (data a) = Some d1 -> to_qs (data b) = Some d2 ->
  let s := fst (reconcile (shape a) (shape b)) in
  resolve rel1 (kind a) (kind b) s d1 d2 = Some r1 -> resolve rel2 (kind a) (kind b) s d1 d2 = Some r2 ->
  resolve abs1 (kind a) (kind b) s d1 d2 = Some t1 -> resolve abs2 (kind a) (kind b) s d1 d2 = Some t2 ->
  rtol_le (ncomp s) r1 r2 -> rtol_le (ncomp s) t1 t2 ->
  fuzzy_eq rel1 abs1 a b = Ok true -> fuzzy_eq rel2 abs2 a b = Ok true.
Proof. exact fuzzy_mono. Qed.
Print Assumptions C10_fuzzy_mono.

Theorem C10_scaled_mono : forall (b1 b2 : Q) k1 k2 s d1 d2 r1 r2,
  b1 <= b2 ->
  resolve (TScaled b1) k1 k2 s d1 d2 = Some r1 -> resolve (TScaled b2) k1 k2 s d1 d2 = Some r2 ->
  rtol_le (ncomp s) r1 r2.
Proof. exact scaled_mono. Qed.
Print Assumptions C10_scaled_mono.

Theorem C10_scaled_tolerance_value : forall base k1 k2 s d1 d2,
  d1 <> [] -> d2 <> [] ->
  exists x, In x (d1 ++ d2) /\ (forall y, In y (d1 ++ d2) -> Qabs y <= Qabs x) /\
    exists v, resolve (TScaled base) k1 k2 s d1 d2 = Some (RNum v) /\ v == base * Qabs x.
Proof. exact scaled_tol_value. Qed.
Print Assumptions C10_scaled_tolerance_value.

Example C10_nonvacuous :
  let a := {| kind := KF64; shape := [2]%nat; data := [SF 1; SF (-8)] |} in
  let b := {| kind := KF64; shape := [2]%nat; data := [SF 1; SF (-7)] |} in
  fuzzy_eq (TNum 0) (TScaled (1#8)) a b = Ok true /\ fuzzy_eq (TNum 0) (TScaled (1#16)) a b = Ok false /\
  fuzzy_eq TDefault (TNum 0) a a = Ok true.
Proof. vm_compute. repeat split; reflexivity. Qed.
