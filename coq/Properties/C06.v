(* Property C06 — a partitioned (parallel) data set reads as the whole data set. *)
From Coq Require Import QArith ZArith Bool Arith List Permutation.
From FC Require Import Model.Merge Model.Structured Proofs.MergeP Proofs.StructuredP Proofs.PMergeP Model.Paths Proofs.PathsP Proofs.OrdinatesP.
Import ListNotations.
Local Open Scope nat_scope.

(* ---- unstructured pieces (.pvtu / .pvtp, fieldcompare.mesh.merge) -------------------------------- *)

(* fresh points of the later piece <-> [offset, offset + #fresh), order preserving; duplicates -> their partner *)
Theorem C06_ext_maps_bijection : forall n d off,
  map (fun j => nth j (map_ext n d off) 0) (filter_ext n d) = seq off (length (filter_ext n d))
  /\ (forall j t, j < n -> dict_get j d = Some t -> nth j (map_ext n d off) 0 = t)
  /\ length (map_ext n d off) = n.
Proof. exact ext_maps_bijection. Qed.
Print Assumptions C06_ext_maps_bijection.

(* the duplicate map relates exactly the coinciding points (stable lexicographic argsort + lower-bound bisection) *)
Theorem C06_dup_map_correct : forall dim src tgt,
  same_dim dim src -> NoDup src -> NoDup tgt ->
  forall j i, j < length src -> i < length tgt ->
  (dict_get j (dup_map src tgt) = Some i <-> pt src j = pt tgt i).
Proof. intros. eapply dup_map_correct; eassumption. Qed.
Print Assumptions C06_dup_map_correct.

(* merging two pieces (repaired _merge): every cell of both pieces once with its corner coordinates and cell data,
   points = union with shared coordinates once, point rows kept (A's rows, then B's rows of the new points) *)
Theorem C06_merge2_fixed_conserves : forall (V : Type) (zero : V) (dim : nat) (A B : mf V),
  wf dim A -> wf dim B ->
  let M := merge2_fixed zero A B in
  wf dim M
  /\ (forall ct, ccells ct M = ccells ct A ++ ccells ct B)
  /\ (forall ct name, cfield ct name M = cfield ct name A ++ cfield ct name B)
  /\ pts M = pts A ++ filter (not_in (pts A)) (pts B)
  /\ (forall p, In p (pts M) <-> In p (pts A) \/ In p (pts B))
  /\ (forall name ra rb,
        alookup name (pdata A) = Some ra -> alookup name (pdata B) = Some rb ->
        length ra = length (pts A) -> length rb = length (pts B) ->
        combine (pts M) (pfield name M)
        = combine (pts A) ra ++ filter (fun pr => not_in (pts A) (fst pr)) (combine (pts B) rb))
  /\ (forall name g, has_pfield name g A -> has_pfield name g B -> has_pfield name g M).
Proof. exact merge2_fixed_conserves. Qed.
Print Assumptions C06_merge2_fixed_conserves.

(* any number of pieces, any order *)
Theorem C06_merge_all_fixed_conserves : forall (V : Type) (zero : V) (dim : nat) (pieces : list (mf V)),
  pieces <> [] -> Forall (wf dim) pieces ->
  exists M, merge_all_fixed zero pieces = Some M /\ wf dim M
    /\ (forall ct, ccells ct M = concat (map (ccells ct) pieces))
    /\ (forall ct name, cfield ct name M = concat (map (cfield ct name) pieces))
    /\ (forall p, In p (pts M) <-> exists B, In B pieces /\ In p (pts B))
    /\ (forall name g, Forall (has_pfield name g) pieces -> has_pfield name g M).
Proof. exact merge_all_fixed_conserves. Qed.
Print Assumptions C06_merge_all_fixed_conserves.

(* ... hence equal, up to reordering, to the global data set the pieces were cut from *)
Theorem C06_merge_all_is_global : forall (V : Type) (zero : V) (dim : nat) (G : mf V) (pieces : list (mf V)),
  pieces <> [] -> Forall (wf dim) pieces -> NoDup (pts G) ->
  (forall p, In p (pts G) <-> exists B, In B pieces /\ In p (pts B)) ->
  exists M, merge_all_fixed zero pieces = Some M
    /\ Permutation (pts M) (pts G)
    /\ (forall ct name,
          Forall (fun X => length (ccells ct X) = length (cfield ct name X)) pieces ->
          Permutation (concat (map (fun X => combine (ccells ct X) (cfield ct name X)) pieces))
                      (combine (ccells ct G) (cfield ct name G)) ->
          Permutation (combine (ccells ct M) (cfield ct name M)) (combine (ccells ct G) (cfield ct name G)))
    /\ (forall name g, has_pfield name g G -> Forall (has_pfield name g) pieces ->
          pfield name M = map g (pts M)).
Proof. exact merge_all_is_global. Qed.
Print Assumptions C06_merge_all_is_global.

(* finding F-C06a: the pinned _merge (early `return fields1`) violates the conservation statement *)
Theorem C06_merge2_pinned_refuted :
  exists A B : mf nat, wf 2 A /\ wf 2 B /\
    ccells 5 (merge2 0 A B) <> ccells 5 A ++ ccells 5 B /\
    cfield 5 0 (merge2 0 A B) <> cfield 5 0 A ++ cfield 5 0 B /\
    ccells 5 (merge2_fixed 0 A B) = ccells 5 A ++ ccells 5 B /\
    cfield 5 0 (merge2_fixed 0 A B) = [20].
Proof. exact merge2_pinned_refuted. Qed.
Print Assumptions C06_merge2_pinned_refuted.

(* ---- structured pieces (.pvti / .pvtr / .pvts, StructuredFieldMerger) --------------------------- *)

(* for every decomposition (any number of axes, any piece sizes) the cell index lists of the pieces partition [0, N_cells) *)
Theorem C06_piece_indices_partition : forall dec,
  Permutation
    (flat_map (fun loc => piece_entity_indices dec loc (piece_shape dec loc) (merged_cell_shape dec))
              (locations_in (pieces_shape dec)))
    (seq 0 (nprod (merged_cell_shape dec))).
Proof. exact piece_indices_partition. Qed.
Print Assumptions C06_piece_indices_partition.

(* ... and the point index lists cover [0, N_points) *)
Theorem C06_piece_indices_cover_points : forall dec, Forall (fun s => s <> []) dec ->
  forall k, k < nprod (merged_point_shape dec) ->
  exists loc, In loc (locations_in (pieces_shape dec)) /\
    In k (piece_entity_indices dec loc (map S (piece_shape dec loc)) (merged_point_shape dec)).
Proof. exact piece_indices_cover_points. Qed.
Print Assumptions C06_piece_indices_cover_points.

(* merging the restrictions of a global x-fastest field gives the global field (point and cell fields) *)
Theorem C06_structured_merge_is_global : forall (V : Type) (zero : V) (dec : list (list nat)) (is_point : bool)
    (g : list V) (field_of : list nat -> list V),
  Forall (fun s => s <> []) dec ->
  length g = nprod (entity_shape is_point (merged_cell_shape dec)) ->
  (forall loc, In loc (locations_in (pieces_shape dec)) ->
     field_of loc = map (fun k => nth k g zero)
                        (piece_entity_indices dec loc (entity_shape is_point (piece_shape dec loc))
                                              (entity_shape is_point (merged_cell_shape dec)))) ->
  smerge zero dec is_point field_of = g.
Proof. exact structured_merge_is_global. Qed.
Print Assumptions C06_structured_merge_is_global.

(* the decomposition is recovered from the piece extents for every listing order of the pieces (one axis): sorted distinct
   begins / ends give the piece sizes, and a piece's position is the index of its begin value *)
Theorem C06_axis_decomposition_from_extents : forall (b : Z) (sizes : list Z) (ps : list nat),
  Forall (fun s => (0 < s)%Z) sizes ->
  (forall p, In p ps <-> p < length sizes) ->
  map2 (fun e b' => (e - b')%Z) (unique_sorted (map (zend b sizes) ps)) (unique_sorted (map (zbegin b sizes) ps)) = sizes
  /\ forall p, p < length sizes -> index_of (zbegin b sizes p) (unique_sorted (map (zbegin b sizes) ps)) = p.
Proof. exact axis_decomposition_from_extents. Qed.
Print Assumptions C06_axis_decomposition_from_extents.

(* all three directions at once, every listing order of the pieces, every mix of meshed directions (all piece sizes positive)
   and flat directions (size 0): the piece sizes per direction, the decomposition handed to the merger and the position of a
   piece in the piece lattice are recovered from the piece extents *)
Theorem C06_decomposition_from_extents : forall (b0 b1 b2 : Z) (s0 s1 s2 : list Z) (listing : list (list nat)),
  axis_ok s0 -> axis_ok s1 -> axis_ok s2 ->
  (forall l, In l listing <-> In l (locations_in (shape3 s0 s1 s2))) ->
  sizes_along_axis (exts b0 b1 b2 s0 s1 s2 listing) = [s0; s1; s2]
  /\ merger_decomposition (exts b0 b1 b2 s0 s1 s2 listing) = dec s0 s1 s2
  /\ (forall i j k, i < length s0 -> j < length s1 -> k < length s2 ->
        piece_location (exts b0 b1 b2 s0 s1 s2 listing) (ext_of b0 b1 b2 s0 s1 s2 [i; j; k]) = restrict (ms s0 s1 s2) [i; j; k]).
Proof.
  intros b0 b1 b2 s0 s1 s2 listing A0 A1 A2 H. split; [|split].
  - apply sizes_from_extents; assumption.
  - apply decomposition_from_extents; assumption.
  - intros i j k. apply location_from_extent; assumption.
Qed.
Print Assumptions C06_decomposition_from_extents.

(* ... and the field read from the parallel file is the global field: the merger's callback finds, for every position of the
   piece lattice, the piece listed for it (domain_id), so merging the restrictions of a global x-fastest field gives it back *)
Theorem C06_pmerge_is_global : forall (b0 b1 b2 : Z) (s0 s1 s2 : list Z) (listing : list (list nat)),
  axis_ok s0 -> axis_ok s1 -> axis_ok s2 ->
  (forall l, In l listing <-> In l (locations_in (shape3 s0 s1 s2))) -> NoDup listing ->
  forall (V : Type) (zero : V) (is_point : bool) (g : list V) (piece_fields : list (list V)),
  length g = nprod (entity_shape is_point (merged_cell_shape (dec s0 s1 s2))) ->
  (forall n, n < length listing ->
     nth n piece_fields [] =
     map (fun k => nth k g zero)
         (piece_entity_indices (dec s0 s1 s2) (restrict (ms s0 s1 s2) (nth n listing []))
            (entity_shape is_point (piece_shape (dec s0 s1 s2) (restrict (ms s0 s1 s2) (nth n listing []))))
            (entity_shape is_point (merged_cell_shape (dec s0 s1 s2))))) ->
  pmerge zero (exts b0 b1 b2 s0 s1 s2 listing) is_point piece_fields = g.
Proof. intros b0 b1 b2 s0 s1 s2 listing A0 A1 A2 H ND. apply pmerge_is_global; assumption. Qed.
Print Assumptions C06_pmerge_is_global.

(* where the pieces are looked up (finding F-C06g): a relative piece name that exists next to the index file is read from there,
   whatever the working directory holds; absolute names are taken as given; the pinned rule preferred a namesake in the working
   directory *)
Theorem C06_pieces_next_to_index : (forall in_cwd, resolve_fixed false in_cwd true = NextToIndex)
  /\ (forall in_cwd next_to_index, resolve_fixed true in_cwd next_to_index = AsGiven)
  /\ resolve_pinned false true true = AsGiven.
Proof. split; [exact resolve_fixed_ignores_cwd|]. split; [exact resolve_fixed_absolute|]. reflexivity. Qed.
Print Assumptions C06_pieces_next_to_index.

(* finding F-C06b: the numeric type of the merged array — pinned: always float64; repaired: that of the pieces *)
Theorem C06_smerge_dtype : (forall d, smerge_dtype_fixed d = d) /\ smerge_dtype_pinned I32 <> I32.
Proof. split; [reflexivity|discriminate]. Qed.
Print Assumptions C06_smerge_dtype.

(* ---- ordinates of a parallel rectilinear grid (.pvtr) --------------------------------------------------------------- *)
(* the assembly loop of PVTRReader (astep is the loop body of the model's pvtr_ordinates, which is run against the reader on
   every .pvtr file of the check): pieces that hold the restrictions of ONE global ordinate vector g to consecutive index
   ranges — any number of pieces, any split — are assembled into exactly g *)
Theorem C06_pvtr_ordinates_assembled : forall (g : qvec) (ns : list nat),
  ns <> [] -> length g = S (total ns) ->
  fold_left astep (cut g 0 ns) (Some (repeat 0%Q (length g)), 0) = (Some g, total ns).
Proof. exact ordinates_assembled. Qed.
Print Assumptions C06_pvtr_ordinates_assembled.

Example C06_pvtr_ordinates_nonvacuous :
  fold_left astep (cut [0#1; 1#2; 1#1; 3#1; 7#1]%Q 0 [2; 1; 1]) (Some (repeat 0%Q 5), 0) = (Some [0#1; 1#2; 1#1; 3#1; 7#1]%Q, 4) /\
  cut [0#1; 1#2; 1#1; 3#1; 7#1]%Q 0 [2; 1; 1] = [[0#1; 1#2; 1#1]; [1#1; 3#1]; [3#1; 7#1]]%Q /\
  (* pieces that disagree on the shared ordinate: the later piece wins, nothing is reported *)
  fold_left astep [[0#1; 1#1]; [5#1; 2#1]]%Q (Some (repeat 0%Q 3), 0) = (Some [0#1; 5#1; 2#1]%Q, 2).
Proof. exact ordinates_example. Qed.

Example C06_nonvacuous :
  wf 2 wit_quad /\ wf 2 wit_tri /\
  (* the triangle shares all three points with the square: duplicates 0,1,2 -> 0,1,2 and no fresh point *)
  dup_map (pts wit_tri) (pts wit_quad) = [(0, 0); (1, 1); (2, 2)] /\
  filter_ext 3 (dup_map (pts wit_tri) (pts wit_quad)) = [] /\
  (* merging the other way round: one fresh point, mapped to index 3 *)
  map_ext 4 (dup_map (pts wit_quad) (pts wit_tri)) 3 = [0; 1; 2; 3] /\
  filter_ext 4 (dup_map (pts wit_quad) (pts wit_tri)) = [3] /\
  ccells 5 (merge2_fixed 0 wit_quad wit_tri) = [[[0; 0]; [1; 0]; [1; 1]]]%Z /\
  (* a 2 x 1 decomposition of a 3 x 2 lattice: cells of the right piece, points of the left piece, and a merge *)
  piece_entity_indices [[1; 2]; [2]] [1; 0] [2; 2] [3; 2] = [1; 2; 4; 5] /\
  piece_entity_indices [[1; 2]; [2]] [0; 0] [2; 3] [4; 3] = [0; 1; 4; 5; 8; 9] /\
  smerge 0 [[1; 2]; [2]] false (fun loc => match loc with [0; 0] => [10; 13] | _ => [11; 12; 14; 15] end)
    = [10; 11; 12; 13; 14; 15] /\
  (* a lattice flat in y, two pieces along x and two along z, listed in a shuffled order: the cell field comes back *)
  (let listing := [[1; 0; 1]; [0; 0; 0]; [1; 0; 0]; [0; 0; 1]] in
   axis_ok [1; 2]%Z /\ axis_ok [0]%Z /\ axis_ok [2; 1]%Z /\
   merger_decomposition (exts 0 0 5 [1; 2]%Z [0]%Z [2; 1]%Z listing) = [[1; 2]; [2; 1]] /\
   pmerge 0 (exts 0 0 5 [1; 2]%Z [0]%Z [2; 1]%Z listing) false [[7; 8]; [0; 3]; [1; 2; 4; 5]; [6]] = [0; 1; 2; 3; 4; 5; 6; 7; 8]).
Proof.
  split; [exact wit_quad_wf|]. split; [exact wit_tri_wf|]. cbv zeta.
  repeat match goal with |- _ /\ _ => split end; try (vm_compute; reflexivity).
  - left. split; [discriminate|repeat constructor].
  - right. reflexivity.
  - left. split; [discriminate|repeat constructor].
Qed.
