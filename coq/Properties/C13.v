(* Property C13 — written files read back to exactly the data that was written.
   Model: Model/Codec.v.  Writer side: VTUWriter._make_data_array_element (UInt64 header = len(values) * ncomps *
   itemsize, header ++ payload in one base64 string, native byte order), points padded to three coordinates, cells
   emitted type by type in the mesh's order.  Reader side: the same reader model as C05 (NoCompressor with a UInt64
   header, np.frombuffer, reshape with NumberOfComponents, regrouping per cell type with np.unique).
   Values are integers; floats are carried as their bit patterns, so "bit-identical" is equality. *)
From Coq Require Import NArith ZArith List Bool.
From FC Require Import Model.Codec Proofs.CodecP Model.VtuFile Proofs.VtuFileP.
Import ListNotations.
Local Open Scope N_scope.

(* every data array: the reader applied to the writer's element returns the rows that were written, for all ten
   numeric types, any number of components >= 1, any number of rows (row-major order is kept) *)
Theorem C13_vtu_write_read : forall bo t nc rows,
  (0 < vwidth t)%nat -> 1 <= nc -> Forall (fun r => lenN r = nc) rows -> Forall (Forall (in_range t)) rows ->
  lenN rows * nc * N.of_nat (vwidth t) < 2 ^ 64 ->
  read_written_array bo t nc (write_data_array bo t nc rows) = Some rows.
Proof. exact vtu_write_read. Qed.
Print Assumptions C13_vtu_write_read.

(* the header the writer computes from len(values), NumberOfComponents and the item size is the payload's byte length *)
Theorem C13_writer_header_is_payload_length : forall bo t nc rows, Forall (fun r => lenN r = nc) rows ->
  lenN rows * nc * N.of_nat (vwidth t) = lenN (encode_values bo t (flatten_rows rows)).
Proof. exact writer_header_is_payload_length. Qed.
Print Assumptions C13_writer_header_is_payload_length.

(* NumberOfComponents arithmetic: reshaping the flat array with the component count undoes row-major flattening *)
Theorem C13_reshape_flatten : forall (nc : N) (rows : list (list Z)), 1 <= nc -> Forall (fun r => lenN r = nc) rows ->
  reshape nc (flatten_rows rows) = Some rows.
Proof. intros. apply reshape_flatten; assumption. Qed.
Print Assumptions C13_reshape_flatten.

(* values <-> bytes for all ten types and both byte orders (two's complement for the signed ones) *)
Theorem C13_values_roundtrip : forall bo t vals, (0 < vwidth t)%nat -> Forall (in_range t) vals ->
  decode_values bo t (encode_values bo t vals) = Some vals.
Proof. exact values_roundtrip. Qed.
Print Assumptions C13_values_roundtrip.

(* cells: written type by type in the mesh's order, read back per type in ascending type id; every type of the mesh
   that has cells comes back with exactly its cells in the same order, and nothing else comes back *)
Theorem C13_vtu_cells_write_read : forall g : list (N * list (list N)),
  NoDup (map fst g) ->
  let r := regroup_cells (writer_connectivity g) (writer_offsets g) (writer_types g) in
  ascending (map fst r) /\
  (forall t cs, In (t, cs) g -> cs <> [] -> In (t, cs) r) /\
  (forall t cs, In (t, cs) r -> In (t, cs) g /\ cs <> []).
Proof. exact vtu_cells_write_read. Qed.
Print Assumptions C13_vtu_cells_write_read.

(* cell data: the reader's split of a cell-data array by cell type picks, for each type, the rows of the cells of that
   type in file order (the writer concatenates the per-type arrays in the order in which it emits the cells) *)
Theorem C13_cell_data_regrouped : forall (cl : list (N * list N)) (rows : list (list Z)) d,
  length rows = length cl ->
  regroup_cell_data rows (file_types cl) d
  = map (fun t => (t, map snd (filter (fun cr => fst (fst cr) =? t) (combine cl rows)))) (unique_sorted (file_types cl)).
Proof. intros. apply regroup_cell_data_correct. assumption. Qed.
Print Assumptions C13_cell_data_regrouped.

(* points padded to three coordinates *)
Theorem C13_points_padded : forall (z : Z) (p : list Z), (1 <= length p <= 3)%nat ->
  length (pad3 z p) = 3%nat /\ firstn (length p) (pad3 z p) = p /\ Forall (fun x => x = z) (skipn (length p) (pad3 z p)).
Proof. intros. apply pad3_spec. assumption. Qed.
Print Assumptions C13_points_padded.

(* tables: the file written by _write_table (names joined by "," and a newline, then one such line per row) is split by the
   reader's line / delimiter structure into the same names and the same cells, for names and cells that are non-empty
   and contain neither the delimiter nor a newline.  Cells are the printed values; that Python's str(float) / float(str)
   and str(int) / int(str) round-trip, and numpy's column typing, are oracles exercised by the harness. *)
Theorem C13_csv_structure_roundtrip : forall names rows,
  names <> [] -> Forall clean names -> Forall (fun r => r <> [] /\ Forall clean r) rows ->
  read_table (write_table names rows) = Some (names, rows).
Proof. exact csv_structure_roundtrip. Qed.
Print Assumptions C13_csv_structure_roundtrip.

(* the final line break of a table carries no data: any table text reads the same with and without it, and the written
   table without its final line break reads back as the same table *)
Theorem C13_csv_final_newline_irrelevant : forall s, read_table (s ++ [newline]) = read_table s.
Proof. exact read_table_final_newline. Qed.
Print Assumptions C13_csv_final_newline_irrelevant.

Theorem C13_csv_roundtrip_without_final_newline : forall names rows,
  names <> [] -> Forall clean names -> Forall (fun r => r <> [] /\ Forall clean r) rows ->
  exists s, write_table names rows = s ++ [newline] /\ read_table s = Some (names, rows).
Proof. exact csv_roundtrip_without_final_newline. Qed.
Print Assumptions C13_csv_roundtrip_without_final_newline.

(* ---- the whole file (Model/VtuFile.v): VTUWriter.write followed by VTUReader, composed from the parts above.
   For every data set whose arrays fit their types (wf_vdata: values within the range of their numeric type, rows of the
   declared number of components, byte counts below 2^64, distinct cell types; the cells of one type may differ in their corner counts, as polygons do),
   reading the written file succeeds and hands out: the points and every point field exactly as given; the cells per cell
   type (ascending type id; every type that has cells, with exactly its cells in the mesh's order; nothing else); and for
   every cell field, per cell type, exactly the rows given for that type. *)
Theorem C13_vtu_file_write_read : forall bo d, wf_vdata d ->
  exists r, read_vtu bo (write_vtu bo d) = Some r /\
    r_points r = v_points d /\ r_pdata r = v_pdata d /\
    ascending (map fst (r_groups r)) /\
    (forall t cs, In (t, cs) (v_groups d) -> cs <> [] -> In (t, cs) (r_groups r)) /\
    (forall t cs, In (t, cs) (r_groups r) -> In (t, cs) (v_groups d) /\ cs <> []) /\
    r_cdata r = map (fun nc => (fst nc, (fst (fst (snd nc)), snd (fst (snd nc)), regrouped (v_groups d) (snd (snd nc)))))
                    (v_cdata d).
Proof. exact vtu_file_write_read. Qed.
Print Assumptions C13_vtu_file_write_read.

(* ... where `regrouped`, what the reader makes of a cell-data array of the written file, is per cell type the rows
   given for that type: ascending type ids, every type with cells carries exactly its rows, and nothing else occurs *)
Theorem C13_cell_data_of_file : forall (g : list (N * list (list N))) (per : list (list (list Z))),
  NoDup (map fst g) -> Forall2 (fun gr rs => length rs = length (snd gr)) g per ->
  ascending (map fst (regrouped g per)) /\
  (forall t cs rs, In ((t, cs), rs) (combine g per) -> cs <> [] -> In (t, rs) (regrouped g per)) /\
  (forall t rs, In (t, rs) (regrouped g per) -> exists cs, In ((t, cs), rs) (combine g per) /\ cs <> []).
Proof. exact regrouped_correct. Qed.
Print Assumptions C13_cell_data_of_file.

(* the hypotheses are satisfiable: a hybrid mesh (one quad, two triangles, Int32 connectivity) with a Float64 point
   vector field given by bit patterns and an Int16 cell field *)
Example C13_file_nonvacuous : wf_vdata example_vdata /\
  option_map r_groups (read_vtu LE (write_vtu LE example_vdata)) = Some [(5, [[1; 4; 5]; [1; 5; 2]]); (9, [[0; 1; 2; 3]])].
Proof. split; [exact example_vdata_wf | vm_compute; reflexivity]. Qed.

(* concrete instance: an Int16 vector field with extreme values (3 rows x 3 components), a Float64 scalar given by bit
   patterns, and a hybrid mesh written as quads then triangles and read back as triangles (5) then quads (9) *)
Example C13_nonvacuous :
  read_written_array LE (VInt 2) 3 (write_data_array LE (VInt 2) 3 [[-32768; 32767; 0]; [1; -1; 2]; [3; 4; -5]]%Z)
    = Some [[-32768; 32767; 0]; [1; -1; 2]; [3; 4; -5]]%Z /\
  read_written_array LE (VFloat 8) 1 (write_data_array LE (VFloat 8) 1 [[9223372036854775808]; [1]; [4607182418800017408]]%Z)
    = Some [[9223372036854775808]; [1]; [4607182418800017408]]%Z /\
  (let g := [(9, [[0; 1; 2; 3]; [1; 4; 5; 2]]); (5, [[4; 6; 5]])] in
   regroup_cells (writer_connectivity g) (writer_offsets g) (writer_types g)
   = [(5, [[4; 6; 5]]); (9, [[0; 1; 2; 3]; [1; 4; 5; 2]])]) /\
  read_table (write_table [[120]; [121; 122]] [[[49; 46; 53]; [97]]; [[50]; [98; 99]]])
    = Some ([[120]; [121; 122]], [[[49; 46; 53]; [97]]; [[50]; [98; 99]]]).
Proof. vm_compute. repeat split; reflexivity. Qed.
