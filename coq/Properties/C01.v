(* Property C01 — fuzzy equality decides exactly the documented tolerance formula.
   Only statements, closed by `exact`, each followed by Print Assumptions. *)
From Coq Require Import QArith Qabs Qminmax List.
From FC Require Import Model.Scalar Model.Predicates Proofs.ScalarP Proofs.PredicatesP.
Import ListNotations.
Local Open Scope Q_scope.

(* the scalar kernel decides |a-b| <= max(rel*max(|a|,|b|), abs), boundary included *)
Theorem C01_kernel_formula : forall a b rel abs : Q,
  fuzzy_q a b rel abs = true <-> Qabs (a - b) <= Qmax (rel * Qmax (Qabs a) (Qabs b)) abs.
Proof. exact fuzzy_q_iff. Qed.
Print Assumptions C01_kernel_formula.

(* shapes: compatible iff equal or equal up to ONE trailing unit axis ((n,) vs (n,1)) *)
Theorem C01_compatible_shapes : forall s1 s2 : list nat,
  compatible s1 s2 = true <-> s1 = s2 \/ s1 = s2 ++ [1%nat] \/ s2 = s1 ++ [1%nat].
Proof. exact compatible_spec. Qed.
Print Assumptions C01_compatible_shapes.

(* array level, all lengths / shapes / tolerance kinds (numbers, per-component, data-dependent) *)
Theorem C01_fuzzy_eq_iff :
  forall (rel abs : tolspec) (a b : arr) (d1 d2 : list Q) (r t : rtol),
  wf_arr a = true -> wf_arr b = true ->
  to_qs (data a) = Some d1 -> to_qs (data b) = Some d2 ->
  resolve rel (kind a) (kind b) (fst (reconcile (shape a) (shape b))) d1 d2 = Some r ->
  resolve abs (kind a) (kind b) (fst (reconcile (shape a) (shape b))) d1 d2 = Some t ->
  (fuzzy_eq rel abs a b = Ok true <->
   compatible (shape a) (shape b) = true /\
   forall j, (j < length d1)%nat ->
     formula (nth j d1 0) (nth j d2 0)
             (tol_at (ncomp (fst (reconcile (shape a) (shape b)))) r j)
             (tol_at (ncomp (fst (reconcile (shape a) (shape b)))) t j)).
Proof. exact fuzzy_eq_iff. Qed.
Print Assumptions C01_fuzzy_eq_iff.

Theorem C01_shape_mismatch_unequal : forall rel abs a b,
  compatible (shape a) (shape b) = false -> fuzzy_eq rel abs a b = Ok false.
Proof. exact fuzzy_eq_shape. Qed.
Print Assumptions C01_shape_mismatch_unequal.

(* a single deviating entry at ANY index j is detected *)
Theorem C01_single_deviation_detected :
  forall (rel abs : tolspec) (a b : arr) (d1 d2 : list Q) (r t : rtol),
  wf_arr a = true -> wf_arr b = true ->
  to_qs (data a) = Some d1 -> to_qs (data b) = Some d2 ->
  resolve rel (kind a) (kind b) (fst (reconcile (shape a) (shape b))) d1 d2 = Some r ->
  resolve abs (kind a) (kind b) (fst (reconcile (shape a) (shape b))) d1 d2 = Some t ->
  forall j, compatible (shape a) (shape b) = true -> (j < length d1)%nat ->
  ~ formula (nth j d1 0) (nth j d2 0)
            (tol_at (ncomp (fst (reconcile (shape a) (shape b)))) r j)
            (tol_at (ncomp (fst (reconcile (shape a) (shape b)))) t j) ->
  fuzzy_eq rel abs a b = Ok false.
Proof. exact single_deviation_detected. Qed.
Print Assumptions C01_single_deviation_detected.

(* tolerances computed from the data: t*max is t times the largest |value| of either array *)
Theorem C01_scaled_tolerance_value : forall base k1 k2 s d1 d2,
  d1 <> [] -> d2 <> [] ->
  exists x, In x (d1 ++ d2) /\ (forall y, In y (d1 ++ d2) -> Qabs y <= Qabs x) /\
    exists v, resolve (TScaled base) k1 k2 s d1 d2 = Some (RNum v) /\ v == base * Qabs x.
Proof. exact scaled_tol_value. Qed.
Print Assumptions C01_scaled_tolerance_value.

(* non-vacuity: a concrete (3,2) vector field with per-component tolerances meets the hypotheses,
   the boundary case |a-b| = threshold compares equal and one step beyond does not *)
Example C01_nonvacuous :
  let a := {| kind := KF64; shape := [3;2]%nat; data := [SF 1; SF 2; SF 3; SF 4; SF 5; SF 6] |} in
  let b := {| kind := KF64; shape := [3;2]%nat; data := [SF 1; SF 2; SF 3; SF 4; SF 5; SF (6 + (1#2))] |} in
  let b' := {| kind := KF64; shape := [3;2]%nat; data := [SF 1; SF 2; SF 3; SF 4; SF 5; SF (6 + (9#16))] |} in
  wf_arr a = true /\ wf_arr b = true /\
  fuzzy_eq (TNum 0) (TComp [0; 1#2]) a b = Ok true /\
  fuzzy_eq (TNum 0) (TComp [0; 1#2]) a b' = Ok false /\
  fuzzy_eq (TNum 0) (TComp [1#2; 0]) a b = Ok false.
Proof. vm_compute. repeat split; reflexivity. Qed.
