(* Property C08 — reordering transformations only relabel; no point, cell or value is lost. *)
From Coq Require Import QArith Arith Bool List Permutation Sorted.
From FC Require Import Model.Scalar Model.Mesh Proofs.MeshP Model.Compose Proofs.ComposeP.
From FC Require Model.Merge Proofs.MergeP.
Import ListNotations.
Local Open Scope nat_scope.

(* a point index map (sorting, stripping, any composition) leaves type and ordered corner coordinates of EVERY cell unchanged *)
Theorem C08_point_map_keeps_cell_geometry : forall M p M',
  permute_points M p = Some M' -> cell_geometry M' = cell_geometry M.
Proof. exact permute_points_geometry. Qed.
Print Assumptions C08_point_map_keeps_cell_geometry.

(* the view is well defined as soon as every referenced point is in the map (uninitialised inverse entries are never read) *)
Theorem C08_inverse_defined_on_used : forall M p,
  (forall i, referenced M i = true -> In i p) -> exists M', permute_points M p = Some M'.
Proof. exact inverse_defined_on_used. Qed.
Print Assumptions C08_inverse_defined_on_used.

(* coordinates and point-field values travel together: entry k of the view is entry p[k] of the original, for both *)
Theorem C08_point_content : forall (A : Type) (d : A) M p M' data,
  permute_points M p = Some M' ->
  combine (pts M') (permute_point_data d data p) = map (fun i => (nth i (pts M) [], nth i data d)) p.
Proof. exact @permute_points_content. Qed.
Print Assumptions C08_point_content.

(* cell index maps that are permutations permute the cells together with their geometry *)
Theorem C08_cell_map_permutes_cells : forall M k,
  Forall2 (fun b kb => Permutation kb (seq 0 (length (snd b)))) (cells M) k ->
  Permutation (cell_geometry (permute_cells M k)) (cell_geometry M).
Proof. exact permute_cells_geometry. Qed.
Print Assumptions C08_cell_map_permutes_cells.

Theorem C08_cell_data_travels_with_cells : forall (A B : Type) (da : A) (db : B) la lb k,
  length la = length lb -> gather (da, db) (combine la lb) k = combine (gather da la k) (gather db lb k).
Proof. exact @gather_combine. Qed.
Print Assumptions C08_cell_data_travels_with_cells.

(* stripping removes precisely the points that no cell references *)
Theorem C08_strip_exact : forall M i, In i (strip_map M) <-> i < npoints M /\ referenced M i = true.
Proof. exact strip_exact. Qed.
Print Assumptions C08_strip_exact.

Theorem C08_strip_nodup_increasing : forall M, NoDup (strip_map M) /\ StronglySorted lt (strip_map M).
Proof. intro M. split; [apply strip_nodup | apply strip_increasing]. Qed.
Print Assumptions C08_strip_nodup_increasing.

(* T3: what the verified checkers accept *)
Theorem C08_check_strip_sound : forall M p,
  check_strip M p = true -> NoDup p /\ (forall i, In i p <-> In i (strip_map M)) /\ Permutation p (strip_map M).
Proof.
  intros M p H. destruct (check_strip_sound M p H) as [A B]. split; [exact A|]. split; [exact B | apply check_strip_perm; exact H].
Qed.
Print Assumptions C08_check_strip_sound.

Theorem C08_is_perm_sound : forall n p, is_perm n p = true -> Permutation p (seq 0 n).
Proof. exact is_perm_sound. Qed.
Print Assumptions C08_is_perm_sound.

(* dimension extension only appends zero coordinates *)
Theorem C08_extend_only_appends_zeros : forall d M,
  cells (extend_points d M) = cells M /\
  length (pts (extend_points d M)) = length (pts M) /\
  forall i, i < length (pts M) ->
    exists z, nth i (pts (extend_points d M)) [] = nth i (pts M) [] ++ z /\ Forall (fun q => q = 0%Q) z.
Proof. exact extend_only_appends_zeros. Qed.
Print Assumptions C08_extend_only_appends_zeros.

(* merge: every point field of the merged data set has one row per merged point, including the fields that only one of
   the two pieces carries (zero rows on the other piece's points) *)
Theorem C08_merge_point_rows_length : forall (V : Type) (zero : V) (A B : Merge.mf V),
  (forall name r, In (name, r) (Merge.pdata A) -> length r = length (Merge.pts A)) ->
  (forall name r, In (name, r) (Merge.pdata B) -> length r = length (Merge.pts B)) ->
  forall name r, In (name, r) (Merge.pdata (Merge.merge2_fixed zero A B)) ->
  length r = length (Merge.pts (Merge.merge2_fixed zero A B)).
Proof. exact MergeP.merged_point_rows_length. Qed.
Print Assumptions C08_merge_point_rows_length.

(* finding F-C08b: with the pinned count of zero rows (all points of the second piece) a field that only the first piece
   carries gets more rows than the merged data set has points as soon as a point is shared; the repaired count fits *)
Theorem C08_merge_zero_rows_pinned_refuted :
  Merge.wf 2 MergeP.wit_tri /\ Merge.wf 2 MergeP.wit_quad /\
  length (Merge.pts MergeP.wit_tri) + Merge.zero_rows_pinned MergeP.wit_tri MergeP.wit_quad
    <> length (Merge.pts (Merge.merge2_fixed 0 MergeP.wit_tri MergeP.wit_quad)) /\
  length (Merge.pts MergeP.wit_tri) + Merge.zero_rows_fixed MergeP.wit_tri MergeP.wit_quad
    = length (Merge.pts (Merge.merge2_fixed 0 MergeP.wit_tri MergeP.wit_quad)).
Proof.
  split; [exact MergeP.wit_tri_wf|]. split; [exact MergeP.wit_quad_wf|]. split; [vm_compute; discriminate|vm_compute; reflexivity].
Qed.
Print Assumptions C08_merge_zero_rows_pinned_refuted.

(* ---- every composition (Model/Compose.v) --------------------------------------------------------------------------- *)
(* ANY sequence of point maps, per-block cell maps and strippings — of any length — that the implementation can perform
   leaves the collection of (cell type, ordered corner coordinates) over the cells exactly as it was *)
Theorem C08_any_composition_keeps_cells : forall ops M M',
  run M ops = Some M' -> Permutation (cell_geometry M') (cell_geometry M).
Proof. exact run_geometry. Qed.
Print Assumptions C08_any_composition_keeps_cells.

Theorem C08_compositions_compose : forall ops1 ops2 M,
  run M (ops1 ++ ops2) = match run M ops1 with Some M1 => run M1 ops2 | None => None end.
Proof. exact run_app. Qed.
Print Assumptions C08_compositions_compose.

(* stripping is defined on every mesh whose corners name points, and keeps as many points as cells reference *)
Theorem C08_strip_step_defined : forall M, wf_mesh M ->
  exists M', step M OStrip = Some M' /\ length (pts M') = length (strip_map M).
Proof. exact strip_step_defined. Qed.
Print Assumptions C08_strip_step_defined.

Example C08_composition_nonvacuous :
  let M := {| pts := [[0#1]; [5#1]; [1#1]; [2#1]]%Q; cells := [(3, [[3; 2]; [2; 0]])] |} in
  (* strip (drops point 1), reverse the remaining points, swap the two cells, strip again (nothing left to drop) *)
  run M [OStrip; OPoints [2; 1; 0]; OCells [[1; 0]]; OStrip]
    = Some {| pts := [[2#1]; [1#1]; [0#1]]%Q; cells := [(3, [[1; 2]; [0; 1]])] |} /\
  run M [OPoints [0; 1; 2]] = None /\ run M [OCells [[0; 0]]] = None.
Proof. vm_compute. repeat split; reflexivity. Qed.

Example C08_nonvacuous :
  let M := {| pts := [[0#1]; [1#1]; [2#1]; [3#1]; [9#1]]; cells := [(3, [[0;1]; [1;2]]); (1, [[3]])] |} in
  strip_map M = [0;1;2;3] /\ check_strip M [3;1;0;2] = true /\
  (match permute_points M [3;1;0;2] with Some M' => cell_geometry M' = cell_geometry M /\ cells M' = [(3, [[2;1]; [1;3]]); (1, [[0]])] | None => False end) /\
  permute_points M [1;0;2] = None.
Proof. vm_compute. repeat split; reflexivity. Qed.
